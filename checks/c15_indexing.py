"""C15 - indexing and slicing of builtin sequences match CPython (DESIGN §4 C15, engine E3)."""
import os

from vlib import harness, kdiff, tree

PID = "C15"
LEVEL = "exploration"
META = {
    "technique": "typed kernel table (container type x index type x index form x access kind) compiled once and driven with the "
                 "exhaustive product lengths 0..8 x indices/slice bounds in [-10, 10] (+ steps, type bounds, non-int indices); "
                 "differential oracle = same source under CPython on fresh containers, mutation compared",
    "level_text": "Exploration, exhaustive over the stated small space: ~420 kernels for o[i], o[i] = v, del o[i], o[a:b], o[a:], o[:b], "
                  "o[:], o[a:b:c], o[a:b] = it, del o[a:b] with o typed list/tuple/str/bytes/bytearray/untyped and index typed object / "
                  "Python int / Py_ssize_t / unsigned int / size_t / long long / char / int, variable and literal indices, are compiled "
                  "from the working tree with default directives and called for EVERY container length 0..8 and EVERY index (pair) in "
                  "[-10, 10] (steps None,1,-1,2,-2,3,0), plus C type bounds, +-2**63/2**64 and non-int indices for object-typed "
                  "indices; untyped kernels also get list/tuple subclasses (with and without __getitem__), dict, deque, range, "
                  "memoryview, array and user sequence/mapping classes. Result, exception type and the container after the operation "
                  "are compared with CPython running the identical source. Larger lengths/indices are not covered.",
    "level_note": "Trusts CPython 3.12 as reference (same source, same runner process, fresh containers per side); exception messages "
                  "are not compared; C-typed indices only receive values inside the C type's range; only default directives "
                  "(boundscheck/wraparound on).",
}

N = 9                      # lengths 0..8
IDX = list(range(-10, 11))
OBJTYPES = ["list", "tuple", "str", "bytes", "bytearray", "object"]
MUTABLE = ["list", "bytearray", "object"]
# index typing: name -> (annotation, domain key)
ITYPES = [("obj", None), ("pyint", "int"), ("ssize", "cython.Py_ssize_t"), ("uint", "cython.uint"), ("size_t", "cython.size_t"),
          ("longlong", "cython.longlong"), ("char", "cython.char"), ("cint", "cython.int")]
BOUNDS = {"ssize": [2 ** 63 - 1, -(2 ** 63), 2 ** 31, -(2 ** 31) - 1, 2 ** 62],
          "uint": [2 ** 32 - 1, 2 ** 31], "size_t": [2 ** 64 - 1, 2 ** 63, 2 ** 63 - 1],
          "longlong": [2 ** 63 - 1, -(2 ** 63)], "char": [127, -128], "cint": [2 ** 31 - 1, -(2 ** 31)],
          "pyint": [2 ** 63 - 1, 2 ** 63, -(2 ** 63), -(2 ** 63) - 1, 2 ** 64, -(2 ** 64), 10 ** 30],
          "obj": [2 ** 63 - 1, 2 ** 63, -(2 ** 63), -(2 ** 63) - 1, 2 ** 64, -(2 ** 64)]}
NONINT = ["True", "False", "S.Idx(2)", "S.Idx(-1)", "S.Idx(10**30)", "S.Idx(-10**30)", "1.5", "None", "'a'", "S.IntSub(1)", "S.IntOnly(1)",
          "S.Idx(TypeError('boom'))", "(0,)", "slice(1, 3)", "Ellipsis"]
UNSIGNED = ("uint", "size_t")
LITERALS = [0, 1, 3, 7, 8, -1, -2, -8, -9, -10]
SLICE_LITERALS = [("1", "3"), ("-3", "-1"), ("0", "100"), ("-100", "2"), ("5", "2"), ("-2", ""), ("", "-2"), ("3", ""), ("", "0"),
                  ("-9", "9")]
STEPS = ["None", "1", "-1", "2", "-2", "3", "0"]

PRELUDE = '''
import collections, array
class LSG(list):
    def __getitem__(self, i):
        return list.__getitem__(self, i)
    def __setitem__(self, i, v):
        return list.__setitem__(self, i, v)
    def __delitem__(self, i):
        return list.__delitem__(self, i)
class TSG(tuple):
    def __getitem__(self, i):
        return tuple.__getitem__(self, i)
class Seq:
    """user sequence: __len__ + __getitem__/__setitem__/__delitem__ recording the key it was given"""
    def __init__(self, n): self.n = n; self.log = []
    def __len__(self): return self.n
    def __getitem__(self, i): self.log.append(("get", _kt_tok(i))); return ("item", _kt_tok(i))
    def __setitem__(self, i, v): self.log.append(("set", _kt_tok(i), v))
    def __delitem__(self, i): self.log.append(("del", _kt_tok(i)))
    def __canon__(self): return ("Seq", self.n, tuple(self.log))
class NoLen:
    def __init__(self): self.log = []
    def __getitem__(self, i): self.log.append(("get", _kt_tok(i))); return ("item", _kt_tok(i))
    def __setitem__(self, i, v): self.log.append(("set", _kt_tok(i), v))
    def __delitem__(self, i): self.log.append(("del", _kt_tok(i)))
    def __canon__(self): return ("NoLen", tuple(self.log))
'''


def container_exprs(otype, n):
    """[(expr or {"fresh": expr}, label)] for a container of length n for kernels whose object parameter is typed otype."""
    items = ", ".join(str(10 + i) for i in range(n))
    lst = "[%s]" % items
    tup = "(%s%s)" % (items, "," if n == 1 else "")
    s1 = repr("abcdefgh"[:n])
    s2 = repr("a\xe9€d\U0001f600fgh"[:n])
    b = repr(b"abcdefgh"[:n])
    if otype == "list":
        return [({"fresh": lst}, "list")]
    if otype == "tuple":
        return [(tup, "tuple")]
    if otype == "str":
        return [(s1, "str")] + ([(s2, "str-wide")] if n in (3, 6, 8) else [])
    if otype == "bytes":
        return [(b, "bytes")]
    if otype == "bytearray":
        return [({"fresh": "bytearray(%s)" % b}, "bytearray")]
    out = [({"fresh": lst}, "list"), (tup, "tuple"), (s1, "str"), (b, "bytes"), ({"fresh": "bytearray(%s)" % b}, "bytearray")]
    if n in (0, 2, 5, 8):
        out += [({"fresh": "S.ListSub(%s)" % lst}, "ListSub"), ({"fresh": "LSG(%s)" % lst}, "ListSub-getitem"),
                ("S.TupleSub(%s)" % tup, "TupleSub"), ("TSG(%s)" % tup, "TupleSub-getitem"),
                ({"fresh": "{%s}" % ", ".join("%d: %d" % (k, 10 + j) for j, k in enumerate(list(range(n // 2 + 1)) + [-1, -n - 1]))}, "dict"),
                ({"fresh": "collections.deque(%s)" % lst}, "deque"), ("range(%d)" % n, "range"),
                ("memoryview(%s)" % b, "memoryview"), ({"fresh": "array.array('i', %s)" % lst}, "array"),
                ({"fresh": "Seq(%d)" % n}, "Seq"), ({"fresh": "S.StrSub(%s)" % s1}, "StrSub")]
    if n == 3:
        out += [({"fresh": "NoLen()"}, "NoLen"), ("None", "None"), ("5", "int"), ({"fresh": "{1, 2, 3}"}, "set")]
    return out


class Table:
    def __init__(self):
        self.values = []
        self.vindex = {}
        self.labels = {}          # value index -> label (containers)
        self.inputs = {}
        self.kernels = []
        self.excluded_known = 0

    def v(self, expr, label=None):
        key = repr(expr)
        if key not in self.vindex:
            self.vindex[key] = len(self.values)
            self.values.append(expr)
            if label:
                self.labels[len(self.values) - 1] = label
        return self.vindex[key]

    def intv(self, i):
        return self.v(str(i) if abs(i) < 2 ** 62 else "(%d)" % i)


def index_domain(t, iname, for_slice=False):
    """value indices usable as an index of type iname: (main list, bounds list)."""
    base = [i for i in IDX if not (iname in UNSIGNED and i < 0)]
    main = [t.intv(i) for i in base]
    extra = [t.intv(i) for i in BOUNDS[iname]]
    if iname == "obj":
        extra += [t.v(e) for e in NONINT]
    if for_slice and iname == "obj":
        extra = [t.v("None")] + extra
    return main, extra


_TABLE = []


def build_table(quick=None):
    """The table is seed-independent; built once per process tree (forked workers inherit it)."""
    if not _TABLE:
        _TABLE.append(_build_table(bool(quick)))
    return _TABLE[0]


def crop_overflows(a, b, n):
    """Predicate of finding C15-list-tuple-slice-crop-overflow: model of __Pyx_crop_slice (ObjectHandling.c) in 64-bit
    arithmetic; True if the helper computes a positive length that differs from the real slice length."""
    def w(x):
        return (x + 2 ** 63) % 2 ** 64 - 2 ** 63
    a, b = w(a), w(b)            # size_t / object values arrive as Py_ssize_t
    start, stop = a, b
    if start < 0:
        start = max(w(start + n), 0)
    if stop < 0:
        stop = w(stop + n)
    elif stop > n:
        stop = n
    length = w(stop - start)
    true = len(range(*slice(a, b).indices(n)))
    return length > 0 and length != true


def _build_table(quick):
    t = Table()
    conts = {}
    for ot in OBJTYPES:
        conts[ot] = []
        for n in range(N):
            for e, label in container_exprs(ot, n):
                conts[ot].append((t.v(e, label), n, label))

    def ann(name, typ):
        return "%s: %s" % (name, typ) if typ else name

    def add(kind, ot, iname, form, src_args, body, inputs, post=False, risky=False):
        name = "k%d" % len(t.kernels)
        src = "def %s(%s):\n%s\n" % (name, src_args, body)
        t.kernels.append({"name": name, "src": src, "kind": kind, "otype": ot, "itype": iname, "form": form, "inputs": inputs,
                          "post": post, "risky": risky})

    oann = {"object": None}

    def item_inputs(ot, iname):
        key = "item:%s:%s" % (ot, iname)
        if key not in t.inputs:
            main, extra = index_domain(t, iname)
            tl, nt = [], []
            for c, n, label in conts[ot]:
                for iv in main + extra:
                    tl.append([c, iv])
                    nt.append(True)
            t.inputs[key] = tl
        return key

    def cont_inputs(ot):
        key = "cont:%s" % ot
        if key not in t.inputs:
            t.inputs[key] = [[c] for c, n, label in conts[ot]]
        return key

    def slice_inputs(ot, iname, which, risky=False):
        """which: 'ab', 'a', 'b'"""
        key = "slice:%s:%s:%s%s" % (ot, iname, which, ":bounds" if risky else "")
        if key not in t.inputs:
            main, extra = index_domain(t, iname, for_slice=True)
            tl = []
            for c, n, label in conts[ot]:
                if risky:
                    if n not in (0, 3, 8):
                        continue
                    if which == "ab":
                        pairs = [[a, b] for a in extra for b in extra] + [[a, b] for a in extra for b in main[::4]] + \
                                [[a, b] for a in main[::4] for b in extra]
                        if ot in ("list", "tuple"):
                            # open finding C15-list-tuple-slice-crop-overflow: such pairs crash the process or raise
                            # MemoryError; excluded by construction except two representatives (Py_ssize_t kernel, len 3)
                            keep = []
                            reps = 0
                            for pr in pairs:
                                ia, ib = int_of(t.values[pr[0]]), int_of(t.values[pr[1]])
                                if ia is not None and ib is not None and abs(ia) < 2 ** 64 and abs(ib) < 2 ** 64 \
                                        and not (iname in ("obj", "pyint") and (abs(ia) >= 2 ** 63 or abs(ib) >= 2 ** 63)) \
                                        and crop_overflows(ia, ib, n):
                                    if iname == "ssize" and n == 3 and reps < 2 and (ib == -(2 ** 63) or reps == 1):
                                        reps += 1
                                        keep.append(pr)
                                    else:
                                        t.excluded_known += 1
                                    continue
                                keep.append(pr)
                            pairs = keep
                    else:
                        pairs = [[a] for a in extra]
                else:
                    if which == "ab":
                        pairs = [[a, b] for a in main for b in main]
                        if quick and ot == "object" and iname not in ("obj", "ssize"):
                            pairs = pairs[(n + len(label)) % 3::3]      # quick tier: 1/3 of the pair grid for the rarer index types
                        if iname == "obj":
                            none = t.v("None")
                            pairs += [[none, b] for b in main[::3]] + [[a, none] for a in main[::3]] + [[none, none]]
                    else:
                        pairs = [[a] for a in main]
                for p in pairs:
                    tl.append([c] + p)
            t.inputs[key] = tl
        return key

    def step_inputs(ot, iname):
        key = "step:%s:%s" % (ot, iname)
        if key not in t.inputs:
            main, extra = index_domain(t, iname, for_slice=True)
            steps = [t.v(s) for s in STEPS] if iname in ("obj",) else [t.intv(int(s)) for s in STEPS if s != "None"]
            tl = []
            for c, n, label in conts[ot]:
                if label not in ("list", "tuple", "str", "bytes", "bytearray") or n in (1, 4, 6, 7):
                    continue
                for a in main[::2] + ([t.v("None")] if iname == "obj" else []):
                    for b in main[1::2] + ([t.v("None")] if iname == "obj" else []):
                        for s in steps:
                            tl.append([c, a, b, s])
            t.inputs[key] = tl
        return key

    for ot in OBJTYPES:
        oa = ann("o", None if ot == "object" else ot)
        for iname, ityp in ITYPES:
            ia = ann("i", ityp)
            add("getitem", ot, iname, "var", "%s, %s" % (oa, ia), "    return o[i]", item_inputs(ot, iname))
            if ot in MUTABLE:
                add("setitem", ot, iname, "var", "%s, %s" % (oa, ia), "    o[i] = 99\n    return o", item_inputs(ot, iname), post=True)
                add("delitem", ot, iname, "var", "%s, %s" % (oa, ia), "    del o[i]\n    return o", item_inputs(ot, iname), post=True)
        for lit in LITERALS:
            add("getitem", ot, "literal", "lit(%d)" % lit, oa, "    return o[%d]" % lit, cont_inputs(ot))
            if ot in MUTABLE:
                add("setitem", ot, "literal", "lit(%d)" % lit, oa, "    o[%d] = 99\n    return o" % lit, cont_inputs(ot), post=True)
                add("delitem", ot, "literal", "lit(%d)" % lit, oa, "    del o[%d]\n    return o" % lit, cont_inputs(ot), post=True)
        # local C-typed index computed in the kernel (index form "expression")
        add("getitem", ot, "ssize", "expr(i-1)", "%s, %s" % (oa, ann("i", "cython.Py_ssize_t")), "    return o[i - 1]",
            item_inputs(ot, "char"))
        # slices
        for iname, ityp in ITYPES:
            if iname in ("char", "cint", "longlong", "uint") and ot not in ("list", "object"):
                continue
            aa, ba = ann("a", ityp), ann("b", ityp)
            add("getslice", ot, iname, "a:b", "%s, %s, %s" % (oa, aa, ba), "    return o[a:b]", slice_inputs(ot, iname, "ab"))
            add("getslice", ot, iname, "a:", "%s, %s" % (oa, aa), "    return o[a:]", slice_inputs(ot, iname, "a"))
            add("getslice", ot, iname, ":b", "%s, %s" % (oa, ba), "    return o[:b]", slice_inputs(ot, iname, "b"))
            if BOUNDS[iname]:
                add("getslice", ot, iname, "a:b", "%s, %s, %s" % (oa, aa, ba), "    return o[a:b]", slice_inputs(ot, iname, "ab", True),
                    risky=True)
                add("getslice", ot, iname, "a:", "%s, %s" % (oa, aa), "    return o[a:]", slice_inputs(ot, iname, "a", True), risky=True)
                add("getslice", ot, iname, ":b", "%s, %s" % (oa, ba), "    return o[:b]", slice_inputs(ot, iname, "b", True), risky=True)
            if ot in MUTABLE and iname in ("obj", "pyint", "ssize", "cint"):
                it = "b'xy'" if ot == "bytearray" else "[7, 8]"
                add("setslice", ot, iname, "a:b", "%s, %s, %s" % (oa, aa, ba), "    o[a:b] = %s\n    return o" % it,
                    slice_inputs(ot, iname, "ab"), post=True)
                add("delslice", ot, iname, "a:b", "%s, %s, %s" % (oa, aa, ba), "    del o[a:b]\n    return o",
                    slice_inputs(ot, iname, "ab"), post=True)
                add("setslice", ot, iname, "a:", "%s, %s" % (oa, aa), "    o[a:] = %s\n    return o" % it,
                    slice_inputs(ot, iname, "a"), post=True)
                add("delslice", ot, iname, ":b", "%s, %s" % (oa, ba), "    del o[:b]\n    return o",
                    slice_inputs(ot, iname, "b"), post=True)
                if BOUNDS[iname]:
                    add("setslice", ot, iname, "a:b", "%s, %s, %s" % (oa, aa, ba), "    o[a:b] = %s\n    return o" % it,
                        slice_inputs(ot, iname, "ab", True), post=True, risky=True)
                    add("delslice", ot, iname, "a:b", "%s, %s, %s" % (oa, aa, ba), "    del o[a:b]\n    return o",
                        slice_inputs(ot, iname, "ab", True), post=True, risky=True)
        add("getslice", ot, "none", ":", oa, "    return o[:]", cont_inputs(ot))
        add("getslice", ot, "none", "::", oa, "    return o[::]", cont_inputs(ot))
        add("getslice", ot, "none", "::-1", oa, "    return o[::-1]", cont_inputs(ot))
        for a, b in SLICE_LITERALS:
            add("getslice", ot, "literal", "lit(%s:%s)" % (a, b), oa, "    return o[%s:%s]" % (a, b), cont_inputs(ot))
            if ot in MUTABLE:
                add("delslice", ot, "literal", "lit(%s:%s)" % (a, b), oa, "    del o[%s:%s]\n    return o" % (a, b), cont_inputs(ot), post=True)
        for iname, ityp in (("obj", None), ("ssize", "cython.Py_ssize_t")):
            args = "%s, %s, %s, %s" % (oa, ann("a", ityp), ann("b", ityp), ann("c", ityp))
            add("getslice", ot, iname, "a:b:c", args, "    return o[a:b:c]", step_inputs(ot, iname))
            if ot in MUTABLE:
                add("delslice", ot, iname, "a:b:c", args, "    del o[a:b:c]\n    return o", step_inputs(ot, iname), post=True)
    return t


_INT_MEMO = {}


def int_of(expr):
    if expr not in _INT_MEMO:
        try:
            v = eval(expr, {})
            _INT_MEMO[expr] = v if type(v) is int else None
        except Exception:
            _INT_MEMO[expr] = None
    return _INT_MEMO[expr]


def _shard(arg):
    seed, shard, nshards, quick = arg
    tree.activate_view()
    part = harness.Part()
    t = build_table()
    kernels = [k for i, k in enumerate(t.kernels) if i % nshards == shard]
    safe = [k for k in kernels if not k["risky"]]
    risky = [k for k in kernels if k["risky"]]
    kernels = safe + risky
    used = sorted(set(k["inputs"] for k in kernels))
    spec = {"values": t.values, "inputs": {d: t.inputs[d] for d in used}, "prelude": PRELUDE, "exc_args": False,
            "kernels": [{"name": k["name"], "inputs": k["inputs"], "post": k["post"]} for k in kernels], "max_mismatch": 60}
    src = "import cython\n\n" + "".join(k["src"] + "\n" for k in kernels)
    ranges = [(0, len(safe))] if safe else []
    for j in range(len(safe), len(kernels), 4):
        ranges.append((j, min(len(kernels), j + 4)))
    res = kdiff.run_table(src, "c15_%d" % shard, os.path.join(tree.workdir(), "c15"), spec, ranges=ranges, max_crashes=10,
                          timeout=1200)
    if res.status != "ok":
        part.violation("build:%s" % res.status, {"kind": "build", "src": src},
                       "kernel module does not build/import/run: %s" % str(res.detail)[:600])
        return part
    lens = {}
    for k, r in zip(kernels, res.kernels):
        tuples = t.inputs[k["inputs"]]
        n = r["n"]
        if r.get("incomplete"):
            part.count("incomplete_kernel_runs")
        part.evaluations += n
        part.classes["%s:%s" % (k["kind"], k["otype"])] += n
        part.classes["index-type:%s" % k["itype"]] += n
        part.classes["ref-outcome:exception"] += r["summ"].count("E")
        for tn, c in r["exc"].items():
            part.classes["ref-exception:%s" % tn] += c
        ctyped = k["itype"] not in ("obj", "pyint", "literal", "none")
        for ti, tup in enumerate(tuples[:n]):
            # NT: C-typed index, or some index negative / at or beyond the last position / non-int
            nt = ctyped
            if not nt:
                for vi in tup[1:]:
                    iv = int_of(t.values[vi]) if isinstance(t.values[vi], str) else None
                    if iv is None or iv < 0 or iv >= 7:
                        nt = True
                        break
                if len(tup) == 1:
                    nt = True       # literal kernels: the literal set is negative / boundary by construction
            if nt:
                part.nt.add(harness.khash([k["src"], [t.values[v] for v in tup]]))
        if len(part.samples) < 5 and n:
            ti = (len(part.samples) * 977 + shard * 131) % n
            part.samples.append({"kernel": k["src"], "args": [t.values[v] for v in tuples[ti]], "agrees": True,
                                 "cpython_outcome": "exception" if r["summ"][ti:ti + 1] == "E" else "value"})

        def args_of(ti):
            out = []
            for v in tuples[ti]:
                e = t.values[v]
                out.append(e if isinstance(e, str) else {"fresh": e["fresh"]})
            return out

        def describe(ti):
            tup = tuples[ti]
            label = t.labels.get(tup[0], "?")
            rest = []
            for v in tup[1:]:
                e = t.values[v]
                iv = int_of(e) if isinstance(e, str) else None
                if iv is None and isinstance(e, str) and e.startswith("S.Idx(") and "10**30" in e:
                    rest.append("hugeIdx" + ("-" if "-10" in e else "+"))
                elif iv is None:
                    rest.append("ni(%s)" % str(e).split("(")[0][:10])
                elif abs(iv) > 2 ** 30:
                    rest.append("huge" + ("-" if iv < 0 else "+"))
                else:
                    rest.append("small" + ("-" if iv < 0 else "+"))
            return label, "/".join(rest) or "-"
        for ti, what in r["crashes"]:
            label, ic = describe(ti)
            part.violation("%s:%s:%s:%s:cont=%s:idx=%s:crash" % (k["kind"], k["otype"], k["itype"], k["form"].replace(":", ";"), label, ic),
                           {"kind": "call", "src": "import cython\n" + k["src"], "kernel": k["name"], "args": args_of(ti), "post": k["post"]},
                           "%s called with %s crashed: %s" % (k["src"].strip().replace("\n", " ; "), args_of(ti), what))
        seen = set()
        for ti, want, got in r["mism"]:
            label, ic = describe(ti)
            kind = mismatch_kind(want, got)
            bucket = "%s:%s:%s:%s:cont=%s:idx=%s:%s" % (k["kind"], k["otype"], k["itype"], k["form"].replace(":", ";"), label, ic, kind)
            if bucket in seen:
                continue
            seen.add(bucket)
            part.violation(bucket, {"kind": "call", "src": "import cython\n" + k["src"], "kernel": k["name"], "args": args_of(ti),
                                    "post": k["post"]},
                           "%s called with %s: CPython %s, compiled %s" % (k["src"].strip().replace("\n", " ; "), args_of(ti),
                                                                           want[:160], got[:160]))
        part.count("mismatching_calls", r["nmis"])
    return part


def mismatch_kind(want, got):
    we, ge = want.startswith("E:"), got.startswith("E:")
    wt = want.split(":")[1] if we else None
    gt = got.split(":")[1] if ge else None
    if we and ge:
        if wt != gt:
            return "exctype:%s->%s" % (wt, gt)
        return "state-after-exception:%s" % wt
    if we:
        return "exc->ok:%s" % wt
    if ge:
        return "ok->exc:%s" % gt
    return "value"


def run(ctx):
    t = build_table(ctx.quick)
    nshards = 10
    # warm the compiler once (workers inherit the loaded Cython)
    from vlib import cybuild
    d = os.path.join(ctx.work, "c15", "warm")
    os.makedirs(d, exist_ok=True)
    with open(os.path.join(d, "c15warm.py"), "w") as f:
        f.write("import cython\n\n" + "".join(k["src"] + "\n" for k in t.kernels[::25]))
    try:
        cybuild.cython_compile(os.path.join(d, "c15warm.py"))
    except cybuild.CythonError:
        pass
    ctx.pmap(_shard, [(ctx.seed, s, nshards, ctx.quick) for s in range(nshards)])
    ctx.extra["kernels"] = len(t.kernels)
    ctx.counters["inputs_excluded_known_finding"] = t.excluded_known
    ctx.extra["input_tuples"] = sum(len(t.inputs[k["inputs"]]) for k in t.kernels)
    ctx.exhaustive = not ctx.quick
    ctx.rule = ("complete kernel table (%d kernels): {getitem, setitem, delitem, getslice a:b / a: / :b / : / a:b:c, setslice, delslice} x "
                "container typing {list, tuple, str, bytes, bytearray, untyped} x index typing {object, Python int, Py_ssize_t, unsigned "
                "int, size_t, long long, char, int} x {variable, literal, expression}; inputs exhaustive (quick tier: untyped-container slice kernels with uint/size_t/long long/char/int/Python-int bounds use a third of the pair grid): every container length 0..8 x "
                "every index in [-10,10] (unsigned: [0,10]) x every bound pair in [-10,10]^2, steps {None,1,-1,2,-2,3,0} on a half-grid, "
                "plus C type bounds, +-2**63, +-2**64, None bounds and non-int indices (bool, __index__ objects incl. huge/raising, float, "
                "None, str, tuple, slice) for object-typed indices; untyped kernels also get list/tuple/str subclasses, dict, deque, range, "
                "memoryview, array, user classes. The run is seed-independent (full enumeration). non-trivial = index C-typed, negative, "
                ">= 7, non-int or a literal-index kernel; distinct by (kernel source, argument expressions)" % len(t.kernels))
    ctx.assumptions = ["CPython 3.12 is the reference semantics", "C-typed index parameters only receive values inside their C range",
                       "exception messages are not compared (types only)", "default directives only"]


def replay(ctx, case):
    out = os.path.join(ctx.work, "c15replay", harness.khash(case))
    if case.get("kind") == "build":
        from vlib import cybuild
        try:
            cybuild.build(case["src"], "c15replay", out)
        except (cybuild.CythonError, cybuild.CCError) as e:
            return True, "build fails: %s" % str(e)[:300]
        return False, "builds"
    spec = {"values": case["args"], "inputs": {"one": [list(range(len(case["args"])))]}, "prelude": PRELUDE, "exc_args": False,
            "kernels": [{"name": case["kernel"], "inputs": "one", "post": case.get("post", False)}]}
    res = kdiff.run_table(case["src"], "c15r", out, spec, max_crashes=1)
    if res.status != "ok":
        return True, "build/run status %s: %s" % (res.status, str(res.detail)[:300])
    k = res.kernels[0]
    if k["crashes"]:
        return True, "%s%s crashed: %s" % (case["kernel"], case["args"], k["crashes"][0][1])
    if k["mism"]:
        return True, "%s%s: CPython %s, compiled %s" % (case["kernel"], case["args"], k["mism"][0][1][:160], k["mism"][0][2][:160])
    return False, "outcomes agree"
