"""C30 - cdef dataclasses behave like stdlib dataclasses (DESIGN §4 C30, engine E2 `.pyx`).

One IR (vlib/gen/dcgen.py) is rendered as `@dataclasses.dataclass cdef class` (compiled) and as the same
class body on a plain Python class (CPython + stdlib dataclasses = oracle).  Construction, repr, comparisons,
hash, attribute assignment, dataclasses.fields/asdict/astuple/replace, __match_args__ and structural `match`
are evaluated on both.  Classes the stdlib rejects at creation must be rejected by Cython (compile or import).
"""
import os
import re

from vlib import cybuild, diffmod, harness, hyp, runner, tree, twin
from vlib.gen import dcgen

PID = "C30"
LEVEL = "exploration"
META = {
    "technique": "property-based differential testing: one dataclass IR rendered as a cdef-class dataclass (.pyx, compiled) and as a stdlib dataclass (CPython oracle); generated constructions and operations compared",
    "level_text": "Exploration: generated dataclasses (1-5 fields typed int/double/object/str/list; per-field default, field(default=), default_factory, init/repr/compare/hash/kw_only options, KW_ONLY sentinel; decorator options init/repr/eq/order/unsafe_hash/frozen/kw_only/match_args) are compiled as extension types and built by the stdlib on plain classes. For each class ~55 operations (positional/keyword/default/missing/extra construction, repr, six comparisons on equal/unequal/foreign operands, hash, setattr/delattr, field access, default_factory freshness, dataclasses.fields/asdict/astuple/replace/is_dataclass, __match_args__, class patterns) are compared by value (type-tagged canon, repr text) and exception type. Classes rejected by the stdlib must be rejected by Cython; classes accepted by the stdlib must compile. Sampling, no proof.",
    "level_note": "Trusts CPython 3.12's dataclasses module as the reference. Typed fields only receive values of their declared type/range. Exception messages, Field.type and Field.kw_only introspection attributes are not compared (not part of the statement). init=False fields are only generated with a default. Compiled code runs in isolated runner subprocesses.",
}
N_CLASSES = 14
SETUP = "import dataclasses"
_ERR = re.compile(r"^\S+?:(\d+):(\d+): (.*)")


def _draw_classes(seed, shard, n):
    cs = hyp.draw_many(dcgen.dc_class(), n + 1, seed, "c30", shard)[1:]
    out = []
    for i, c in enumerate(cs):
        c = dict(c, name="C%d" % i)
        vs = hyp.draw_many(dcgen.value_sets(c), 2, seed, "c30v", shard, i)[-1]
        out.append((c, vs))
    return out


def _features(c):
    """opts=<non-default decorator options>;flags=<class properties that select known root causes>"""
    opts = ",".join("%s" % k if v else "%s=False" % k for k, v in sorted(c["opts"].items()))
    fl = set()
    for f in c["fields"]:
        if f.get("compare") is False and "hash" not in f:
            fl.add("cmpF-hashNone")
        if f.get("init") is False:
            fl.add("initF")
        if "kw_only" in f:
            fl.add("kwfield")
        if f["type"] == "object" and f.get("compare", True):
            fl.add("objfield")
        if f["via"] == "field" and f["default"] in ("[]", "{}"):
            fl.add("mutdefault-field")
        if f["via"] == "plain" and f["default"] in ("[]", "{}"):
            fl.add("mutdefault-plain")
    if c.get("kw_only_at") is not None:
        fl.add("KW_ONLY")
    return "opts=%s;flags=%s" % (opts or "-", ",".join(sorted(fl)) or "-")


def _msg_template(msg):
    msg = re.sub(r"'[^']*'", "'_'", msg)
    return re.sub(r"\d+", "N", msg)[:80]


def _compile_isolating(part, items, name, outdir):
    """Cython-compile the .pyx module of `items` [(class, valsets)]; classes whose lines carry compile errors are
    recorded as 'cython rejects a class the stdlib accepts' and dropped.  -> (accepted items, c_path or None)"""
    items = list(items)
    for _round in range(6):
        if not items:
            return [], None
        chunks = [dcgen.render_class(c, True) for c, _ in items]
        src = dcgen.HEADER_PYX + "\n".join(chunks)
        # line ranges
        ranges = []
        line = dcgen.HEADER_PYX.count("\n") + 1
        for ch in chunks:
            n = ch.count("\n") + 1
            ranges.append((line, line + n - 1))
            line += n
        d = os.path.join(outdir, name)
        os.makedirs(d, exist_ok=True)
        path = os.path.join(d, name + ".pyx")
        with open(path, "w") as f:
            f.write(src)
        try:
            return items, cybuild.cython_compile(path)
        except cybuild.CythonError as e:
            bad = {}
            for ln in e.errors:
                m = _ERR.match(ln)
                if m and "warning:" not in ln:
                    lno = int(m.group(1))
                    for k, (a, b) in enumerate(ranges):
                        if a <= lno <= b and k not in bad:
                            bad[k] = m.group(3)
            if e.crashed or not bad:
                # cannot attribute: test every class alone
                bad = {}
                for k, (c, _) in enumerate(items):
                    p1 = os.path.join(d, "solo%d.pyx" % k)
                    with open(p1, "w") as f:
                        f.write(dcgen.HEADER_PYX + dcgen.render_class(c, True))
                    try:
                        cybuild.cython_compile(p1)
                    except cybuild.CythonError as e1:
                        msgs = [m.group(3) for m in map(_ERR.match, e1.errors) if m]
                        bad[k] = ("Compiler crash: " if e1.crashed else "") + (msgs[0] if msgs else "?")
                if not bad:
                    part.violation("build;module-only-cyerror", {"classes": [c for c, _ in items], "kind": "module"},
                                   "module fails to compile although every class compiles alone: %s" % e.errors[:3])
                    return [], None
            for k, msg in sorted(bad.items()):
                c = items[k][0]
                part.case(["reject", c], dcgen.nondefault_options(c) > 0, ["verdict:cython-rejects-valid"])
                part.violation("cy-rejects-valid;%s;%s" % (_msg_template(msg), _features(c)),
                               {"kind": "reject", "class": c},
                               "stdlib dataclasses accepts the class, Cython reports: %s | %s" % (
                                   msg, dcgen.render_class(c, True, with_match=False).replace("\n", " / ")))
            items = [it for k, it in enumerate(items) if k not in bad]
    return [], None


def _check_invalid(part, invalid, name, outdir):
    """Classes the stdlib rejects: Cython must reject at compile time or fail at import."""
    accepted = []
    d = os.path.join(outdir, name + "_inv")
    os.makedirs(d, exist_ok=True)
    for k, (c, verdict) in enumerate(invalid):
        p1 = os.path.join(d, "inv%d.pyx" % k)
        with open(p1, "w") as f:
            f.write(dcgen.HEADER_PYX + dcgen.render_class(c, True, with_match=False))
        try:
            cybuild.cython_compile(p1)
            accepted.append((c, verdict, p1))
        except cybuild.CythonError as e:
            part.case(["invalid", c], True, ["verdict:both-reject(compile)", "stdlib-reject:" + verdict])
            if e.crashed:
                part.violation("invalid-class-crashes-compiler;%s" % verdict, {"kind": "invalid", "class": c, "verdict": verdict},
                               "compiler crash instead of an error: %s" % e.errors[:3])
    for c, verdict, p1 in accepted[:4]:
        # Cython compiled it: it must then fail at import
        try:
            so = os.path.join(d, "so_" + os.path.basename(p1)[:-4])
            os.makedirs(so, exist_ok=True)
            modname = os.path.basename(p1)[:-4]
            sop = cybuild.cc(p1[:-4] + ".c", os.path.join(so, modname + cybuild.EXT_SUFFIX))
        except cybuild.CCError as e:
            part.violation("invalid-class-ccerror;%s" % verdict, {"kind": "invalid", "class": c, "verdict": verdict},
                           "generated C does not compile: %s" % str(e)[-300:])
            continue
        imp, _ = runner.run_cases("so", sop, modname, [])
        if imp[0] == "ok":
            part.case(["invalid", c], True, ["verdict:cython-accepts-invalid", "stdlib-reject:" + verdict])
            part.violation("cy-accepts-invalid;%s;%s" % (verdict, _features(c)),
                           {"kind": "invalid", "class": c, "verdict": verdict},
                           "stdlib raises %s when creating the class, Cython compiles and imports it: %s" % (
                               verdict, dcgen.render_class(c, True, with_match=False).replace("\n", " / ")))
        else:
            part.case(["invalid", c], True, ["verdict:both-reject(import)", "stdlib-reject:" + verdict])


def _compare_class(part, c, cases, ref, got):
    nt = dcgen.nondefault_options(c) > 0
    feats = _features(c)
    for cs, r, g in zip(cases, ref, got):
        cls = diffmod.compare(r, g, "exctype")
        part.case([c, cs["expr"]], nt, ["op:" + cs["op"], "outcome:" + r[0]] + ["opt:" + o for o in c["opts"]],
                  sample={"class": dcgen.render_class(c, True, with_match=False), "expr": cs["expr"],
                          "stdlib": diffmod.json_short(r), "compiled": diffmod.json_short(g)})
        if cls is not None:
            part.violation("%s;%s;%s" % (cs["op"], cls, feats), {"kind": "op", "class": c, "expr": cs["expr"], "op": cs["op"]},
                           "%s on %s: stdlib %s vs cdef dataclass %s" % (
                               cs["expr"], dcgen.render_class(c, True, with_match=False).replace("\n", " / "),
                               diffmod.json_short(r), diffmod.json_short(g)))


def _run_classes(part, items, name, outdir):
    """items: [(class IR, valsets)] all accepted by the stdlib."""
    items, c_path = _compile_isolating(part, items, name, outdir)
    if not items:
        return
    d = os.path.join(outdir, name)
    so_dir = os.path.join(d, "so")
    os.makedirs(so_dir, exist_ok=True)
    try:
        so = cybuild.cc(c_path, os.path.join(so_dir, name + cybuild.EXT_SUFFIX))
    except cybuild.CCError as e:
        if len(items) == 1:
            part.violation("build;ccerror;%s" % _features(items[0][0]), {"kind": "reject", "class": items[0][0]},
                           "generated C does not compile: %s" % str(e)[-400:])
        else:
            for k, it in enumerate(items):
                _run_classes(part, [it], "%s_s%d" % (name, k), outdir)
        return
    per = [dcgen.class_cases(c, vs) for c, vs in items]
    flat = [{"expr": cs["expr"]} for p in per for cs in p]
    ref_path = os.path.join(d, "ref", name + ".py")
    os.makedirs(os.path.dirname(ref_path), exist_ok=True)
    with open(ref_path, "w") as f:
        f.write(dcgen.render_module([c for c, _ in items], False))
    imp_g, got = runner.run_cases("so", so, name, flat, setup=SETUP)
    imp_r, ref = runner.run_cases("py", ref_path, name, flat, setup=SETUP)
    if imp_r[0] != "ok":
        raise RuntimeError("oracle module failed to import: %r" % (imp_r,))
    if imp_g[0] != "ok":
        if len(items) == 1:
            part.violation("import;%s;%s" % (imp_g[1] if len(imp_g) > 1 else "?", _features(items[0][0])),
                           {"kind": "reject", "class": items[0][0]},
                           "compiled module fails at import: %s" % diffmod.json_short(imp_g))
        else:
            for k, it in enumerate(items):
                _run_classes(part, [it], "%s_s%d" % (name, k), outdir)
        return
    i = 0
    for (c, vs), p in zip(items, per):
        _compare_class(part, c, p, ref[i:i + len(p)], got[i:i + len(p)])
        i += len(p)
    part.count("modules")
    part.count("classes", len(items))


def _shard(arg):
    seed, shard, n = arg
    tree.activate_view()
    part = harness.Part()
    outdir = os.path.join(tree.workdir(), "c30")
    drawn = _draw_classes(seed, shard, n)
    valid, invalid = [], []
    for c, vs in drawn:
        v = dcgen.stdlib_verdict(c)
        if v is None:
            valid.append((c, vs))
        else:
            invalid.append((c, v))
    name = "c30m%d" % shard
    _run_classes(part, valid, name, outdir)
    _check_invalid(part, invalid, name, outdir)
    return part


def run(ctx):
    nshards = 12 if ctx.quick else 160
    ctx.pmap(_shard, [(ctx.seed, s, N_CLASSES) for s in range(nshards)])
    ctx.rule = ("Hypothesis-drawn dataclass IRs (1-5 fields of int/double/object/str/list; defaults, field(), default_factory, "
                "init/repr/compare/hash/kw_only field options, KW_ONLY; decorator options flipped with p=0.05-0.35; a few "
                "stdlib-invalid combinations), %d classes per module; ~55 operations per class on two drawn value sets; "
                "oracle = stdlib dataclasses on the same body (value canon incl. repr text, exception type). non-trivial = "
                "class has >= 1 non-default decorator/field option; distinct by (class IR, operation expression)" % N_CLASSES)
    ctx.assumptions = ["CPython 3.12 dataclasses module is the reference",
                       "typed (cython.int / cython.double / str / list) fields only receive values of that type and range",
                       "exception messages, Field.type and Field.kw_only are not compared"]


def replay(ctx, case):
    return twin.cached_replay(ctx, PID, case, _replay_one)


def _replay_one(arg):
    work, case = arg
    tree.activate_view()
    part = harness.Part()
    outdir = os.path.join(work, "c30replay")
    name = "c30r" + harness.khash(case)
    kind = case.get("kind")
    if kind == "module":
        items = [(c, None) for c in case["classes"]]
        _compile_isolating(part, items, name, outdir)
        return bool(part.violations), (part.violations[0][2] if part.violations else "compiles")
    c = case["class"]
    verdict = dcgen.stdlib_verdict(c)
    if kind == "invalid":
        if verdict is None:
            return False, "stdlib accepts the class"
        _check_invalid(part, [(c, verdict)], name, outdir)
        return bool(part.violations), (part.violations[0][2] if part.violations else "both reject")
    if verdict is not None:
        return False, "stdlib rejects the class (%s)" % verdict
    if kind == "reject":
        items, c_path = _compile_isolating(part, [(c, None)], name, outdir)
        if part.violations:
            return True, part.violations[0][2]
        # build + import
        try:
            so_dir = os.path.join(outdir, name, "so")
            os.makedirs(so_dir, exist_ok=True)
            so = cybuild.cc(c_path, os.path.join(so_dir, name + cybuild.EXT_SUFFIX))
        except cybuild.CCError as e:
            return True, "generated C does not compile: %s" % str(e)[-300:]
        imp, _ = runner.run_cases("so", so, name, [], setup=SETUP)
        return imp[0] != "ok", "import outcome %s" % diffmod.json_short(imp)
    res = twin.run(dcgen.render_module([c], True), dcgen.render_module([c], False), name, outdir,
                   [{"expr": case["expr"]}], setup=SETUP)
    if res.status != "ok":
        return True, "build/import status %s: %s" % (res.status, str(res.detail)[:300])
    cls = diffmod.compare(res.ref[0], res.got[0], "exctype")
    if cls is None:
        return False, "outcomes agree: %s" % diffmod.json_short(res.ref[0])
    return True, "%s: %s: stdlib %s vs cdef dataclass %s" % (case["expr"], cls, diffmod.json_short(res.ref[0]),
                                                              diffmod.json_short(res.got[0]))
