"""C06 - C double arithmetic and float() parsing match CPython (DESIGN §4 C06, engines E3 + E5)."""
import os

from hypothesis import strategies as st

from vlib import harness, hyp, kdiff, tree
from vlib.gen import floatstr, numvals

PID = "C06"
LEVEL = "exploration"
META = {
    "technique": "typed kernel tables on C doubles (operators, comparisons, int()/round()/abs()/bool(), constant and mixed operands) and "
                 "float(str|bytes|bytearray) kernels driven with special/targeted/Hypothesis doubles and with exhaustive small-alphabet, "
                 "grammar-generated and mutated numeric strings; differential oracle = same source under CPython; parsing batch repeated "
                 "under ASan/UBSan",
    "level_text": "Exploration: ~150 kernels over `double a, b` (+ - * / // % in expression, in-place, typed-local, float-annotated, "
                  "constant-operand and double-with-long forms; six comparisons as value and condition; unary -, abs, bool, not, and/or, "
                  "min/max, int(), round(), round(a, n), divmod, float()) are compiled from the working tree and called with the square of "
                  "a special-value set (signed zeros, inf, nan, subnormals, max, halves, 2**53+-1, ...), targeted pairs (exact multiples "
                  "with either sign, quotients that round across an integer such as 6.0 // 0.1) and seeded random pairs. float() kernels "
                  "(object, str, bytes, bytearray typed) get EVERY string over the alphabet {1 _ . e + - space} up to length 5 (6 in the "
                  "thorough tier), an inf/nan edit family, strings around the 40-byte stack buffer with ASCII/non-ASCII padding and "
                  "underscores, and Hypothesis grammar strings with byte-level mutations; the same parsing batch also runs in an "
                  "ASan+UBSan build. Compared: value by float.hex (sign of zero), NaN-ness, result type, exception TYPE. Sampling apart "
                  "from the small-alphabet enumeration; no proof.",
    "level_note": "Trusts CPython 3.12 (same source, same operands, same process) as reference; exception messages are not compared "
                  "(the property lists types only); `**` is left to C07; C `float` (single precision) kernels are not generated because "
                  "CPython has no single-precision reference.",
}

BINOPS = [("+", "add"), ("-", "sub"), ("*", "mul"), ("/", "truediv"), ("//", "floordiv"), ("%", "mod")]
CMPOPS = [("<", "lt"), ("<=", "le"), ("==", "eq"), ("!=", "ne"), (">", "gt"), (">=", "ge")]
CONSTS = ["2.0", "0.1", "-3.0", "0.5", "1e308", "-0.0", "3"]

SPECIAL = ["0.0", "-0.0", "float('inf')", "float('-inf')", "float('nan')", "5e-324", "-5e-324", "2.2250738585072014e-308",
           "-2.2250738585072014e-308", "1.7976931348623157e308", "-1.7976931348623157e308", "1.0", "-1.0", "0.5", "-0.5", "1.5",
           "-1.5", "2.5", "-2.5", "9007199254740991.0", "9007199254740993.0", "-9007199254740992.0", "1e22", "0.1", "6.0", "2.0",
           "-4.0", "3.0", "0.3", "1e16", "4503599627370496.5", "-0.1", "9.223372036854775807e18", "-9.223372036854775808e18",
           "2147483648.0", "0.49999999999999994", "1e-7", "123.456"]
# C long operands stay exactly representable as doubles (beyond 2**53 the C long->double conversion is lossy by C rules)
SMALL_INTS = ["0", "1", "-1", "2", "-2", "3", "7", "-7", "10", "1000", "-1000", "2**31", "-2**31", "2**53", "-2**53", "2**52+1"]
NDIGITS = ["0", "1", "2", "-1", "-2", "5", "15", "17", "300", "-400"]


def make_arith_kernels():
    ks = []
    D = "cython.double"

    def add(op, form, src_body, args, dom, extra=None):
        name = "k%d" % len(ks)
        src = "def %s(%s):\n%s\n" % (name, args, src_body)
        ks.append({"name": name, "src": src, "op": op, "form": form.replace(":", "(", 1) + (")" if ":" in form else ""), "dom": dom})

    ab = "a: %s, b: %s" % (D, D)
    for sym, nm in BINOPS:
        add(nm, "expr", "    return a %s b" % sym, ab, "pairs")
        add(nm, "inplace", "    a %s= b\n    return a" % sym, ab, "pairs")
        add(nm, "local", "    c: %s = a %s b\n    return c" % (D, sym), ab, "pairs")
        add(nm, "floatann", "    return a %s b" % sym, "a: float, b: float", "pairs")
        add(nm, "objres", "    r: object = a %s b\n    return r" % sym, ab, "pairs")
        add(nm, "mixed-long-r", "    return a %s i" % sym, "a: %s, i: cython.long" % D, "float_int")
        add(nm, "mixed-long-l", "    return i %s a" % sym, "i: cython.long, a: %s" % D, "int_float")
        add(nm, "mixed-obj-r", "    return a %s y" % sym, "a: %s, y" % D, "pairs")
        add(nm, "mixed-obj-l", "    return y %s a" % sym, "y, a: %s" % D, "pairs")
        for c in CONSTS:
            add(nm, "const-r:" + c, "    return a %s %s" % (sym, c), "a: %s" % D, "singles")
            add(nm, "const-l:" + c, "    return %s %s a" % (c, sym), "a: %s" % D, "singles")
        if nm in ("truediv", "floordiv", "mod"):
            add(nm, "const-r:0.0", "    return a %s 0.0" % sym, "a: %s" % D, "singles")
            add(nm, "cdivision", "    return a %s b" % sym, ab, "pairs", )
            ks[-1]["src"] = "@cython.cdivision(False)\n" + ks[-1]["src"]
    for sym, nm in CMPOPS:
        add(nm, "cmpval", "    return a %s b" % sym, ab, "pairs")
        add(nm, "cmpcond", "    if a %s b:\n        return 1\n    return 0" % sym, ab, "pairs")
        add(nm, "cmp-mixed-long", "    return a %s i" % sym, "a: %s, i: cython.long" % D, "float_int")
        add(nm, "cmp-chain", "    return a %s b %s a" % (sym, sym), ab, "pairs")
    un = "a: %s" % D
    add("neg", "expr", "    return -a", un, "singles")
    add("pos", "expr", "    return +a", un, "singles")
    add("abs", "expr", "    return abs(a)", un, "singles")
    add("bool", "expr", "    return bool(a)", un, "singles")
    add("not", "expr", "    return not a", un, "singles")
    add("truth", "cond", "    if a:\n        return 1\n    return 0", un, "singles")
    add("int", "expr", "    return int(a)", un, "singles")
    add("int", "local", "    r: object = int(a)\n    return r", un, "singles")
    add("round", "expr", "    return round(a)", un, "singles")
    add("round", "ndigits-none", "    return round(a, None)", un, "singles")
    add("round", "ndigits", "    return round(a, n)", "a: %s, n: int" % D, "float_nd")
    add("round", "ndigits-obj", "    return round(a, n)", "a: %s, n" % D, "float_nd")
    add("float", "expr", "    return float(a)", un, "singles")
    add("float", "is-float", "    return type(float(a)) is float", un, "singles")
    add("and", "expr", "    return a and b", ab, "pairs")
    add("or", "expr", "    return a or b", ab, "pairs")
    add("min", "expr", "    return min(a, b)", ab, "pairs")
    add("max", "expr", "    return max(a, b)", ab, "pairs")
    add("min", "three", "    return min(a, b, 1.0)", ab, "pairs")
    add("max", "three", "    return max(a, 0.0, b)", ab, "pairs")
    add("divmod", "expr", "    return divmod(a, b)", ab, "pairs")
    add("condexpr", "expr", "    return a if a > b else b", ab, "pairs")
    add("hash-eq", "expr", "    return (a == b) == (b == a)", ab, "pairs")
    add("str", "expr", "    return str(a)", un, "singles")
    add("repr", "expr", "    return repr(a)", un, "singles")
    add("int-floordiv", "expr", "    return int(a // b)", ab, "pairs")
    return ks


PARSE_KERNELS = [
    ("p_obj", "def p_obj(x):\n    return float(x)\n", "any"),
    ("p_local", "def p_local(x):\n    d: cython.double = float(x)\n    return d\n", "any"),
    ("p_str", "def p_str(x: str):\n    return float(x)\n", "str"),
    ("p_bytes", "def p_bytes(x: bytes):\n    return float(x)\n", "bytes"),
    ("p_bytearray", "def p_bytearray(x: bytearray):\n    return float(x)\n", "bytearray"),
    ("p_arith", "def p_arith(x):\n    return float(x) + 1.0\n", "any"),
]


def fclass(expr):
    if "inf" in expr:
        return "inf"
    if "nan" in expr:
        return "nan"
    try:
        v = eval(expr, {"float": float})
    except Exception:
        return "num"
    if v == 0:
        return "zero"
    return "finite"


def value_kind(want, got):
    if want[:2] == "E:" or got[:2] == "E:":
        if want[:2] == "E:" and got[:2] == "E:":
            return "exctype:%s->%s" % (want.split(":")[1], got.split(":")[1])
        return ("exc->ok:%s" % want.split(":")[1]) if want[:2] == "E:" else ("ok->exc:%s" % got.split(":")[1])
    if want[:2] == "f:" and got[:2] == "f:":
        if want == "f:nan":
            return "nan->num"
        if got == "f:nan":
            return "num->nan"
        w, g = float.fromhex(want[2:]), float.fromhex(got[2:])
        if w == 0 and g == 0:
            return "zero-sign"
        if w in (float("inf"), float("-inf")) or g in (float("inf"), float("-inf")):
            return "inf-vs-finite" if w != -g else "inf-sign"
        if abs(w - g) == 1:
            return "off-by-one"
        return "value"
    if want.split(":")[0] != got.split(":")[0]:
        return "type:%s->%s" % (want.split(":")[0], got.split(":")[0])
    return "value"


def arith_values(seed, quick):
    """-> (values, inputs, nt_sets)"""
    values = list(SPECIAL)
    nspecial = len(values)
    pairs = [[i, j] for i in range(nspecial) for j in range(nspecial)]
    nt_pairs = len(pairs)
    index = {e: i for i, e in enumerate(values)}

    def vid(v):
        e = numvals.float_expr(v)
        if e not in index:
            index[e] = len(values)
            values.append(e)
        return index[e]
    # targeted: exact multiples with either sign (fmod == 0), quotients rounding across an integer
    for b in (2.0, 0.5, 3.0, 0.1, 1e-3, 7.0, 2.5, 1e300, 5e-324):
        for k in (-7, -4, -3, -1, 1, 2, 4, 9):
            for sb in (1.0, -1.0):
                pairs.append([vid(k * b), vid(sb * b)])
    for b in (0.1, 0.01, 0.3, 0.7, 1e-5, 0.2):
        for n in list(range(1, 40)) + [60, 100, 1000, 12345]:
            pairs.append([vid(float(n) * b), vid(b)])
            pairs.append([vid(-(float(n) * b)), vid(b)])
            pairs.append([vid(round(n * b, 10)), vid(b)])
    nt_pairs = len(pairs)
    nrand = 2500 if quick else 150000
    strat = st.tuples(st.floats(), st.floats()) | st.tuples(st.floats(-1e6, 1e6), st.floats(-1e3, 1e3)) | \
        st.builds(lambda n, b: (n * b, b), st.integers(-1000, 1000), st.floats(1e-3, 1e3))
    for a, b in hyp.draw_many(strat, nrand + 1, seed, "c06-pairs")[1:]:
        pairs.append([vid(a), vid(b)])
    singles = [[i] for i in range(len(values))]
    nt_singles = nspecial
    base = len(values)
    values.extend(SMALL_INTS)
    int_idx = list(range(base, base + len(SMALL_INTS)))
    base2 = len(values)
    values.extend(NDIGITS)
    nd_idx = list(range(base2, base2 + len(NDIGITS)))
    fsub = list(range(nspecial)) + [p[0] for p in pairs[nt_pairs:nt_pairs + 60]]
    inputs = {"pairs": pairs, "singles": singles,
              "float_int": [[a, i] for a in fsub for i in int_idx],
              "int_float": [[i, a] for a in fsub for i in int_idx],
              "float_nd": [[a, n] for a in fsub for n in nd_idx]}
    nt = {"pairs": nt_pairs, "singles": nt_singles, "float_int": nspecial * len(int_idx), "int_float": nspecial * len(int_idx),
          "float_nd": nspecial * len(nd_idx)}
    # float_int/int_float/float_nd lists are ordered special-first per outer loop over fsub: the first nspecial*len(...) are special
    return values, inputs, nt


def _arith_shard(arg):
    seed, shard, kernels, quick = arg
    tree.activate_view()
    part = harness.Part()
    values, inputs, nt = arith_values(seed, quick)
    used = sorted(set(k["dom"] for k in kernels))
    spec = {"values": values, "inputs": {d: inputs[d] for d in used}, "exc_args": False,
            "kernels": [{"name": k["name"], "inputs": k["dom"]} for k in kernels], "max_mismatch": 40}
    src = "import cython\n\n" + "".join(k["src"] + "\n" for k in kernels)
    res = kdiff.run_table(src, "c06a_%d" % shard, os.path.join(tree.workdir(), "c06"), spec)
    if res.status != "ok":
        part.violation("build:arith:%s" % res.status, {"kind": "build", "src": src},
                       "arithmetic kernel module does not build/import: %s" % str(res.detail)[:600])
        return part
    for k, r in zip(kernels, res.kernels):
        tuples = inputs[k["dom"]]
        n = r["n"]
        part.evaluations += n
        part.classes["arith:%s" % k["op"]] += n
        part.classes["arith-form:%s" % k["form"].split("(")[0]] += n
        part.classes["ref-outcome:exception"] += r["summ"].count("E")
        for ti in range(min(nt[k["dom"]], n)):
            part.nt.add(harness.khash(["a", k["src"], [values[i] for i in tuples[ti]]]))
        if len(part.samples) < 4 and n:
            ti = (shard * 131 + len(part.samples) * 17) % min(nt[k["dom"]], n)
            part.samples.append({"kernel": k["src"], "args": [values[i] for i in tuples[ti]], "agrees": True,
                                 "cpython_outcome": "exception" if r["summ"][ti] == "E" else "value"})
        for ti, what in r["crashes"]:
            args = [values[i] for i in tuples[ti]]
            part.violation("arith:%s:%s:crash" % (k["op"], k["form"]),
                           {"kind": "arith", "src": "import cython\n" + k["src"], "kernel": k["name"], "args": args},
                           "%s(%s) crashed: %s" % (k["src"].strip(), ", ".join(args), what))
        seen = set()
        for ti, want, got in r["mism"]:
            args = [values[i] for i in tuples[ti]]
            cls = "/".join(fclass(a) for a in args)
            bucket = "arith:%s:%s:%s:%s" % (k["op"], k["form"], cls, value_kind(want, got))
            if bucket in seen:
                continue
            seen.add(bucket)
            part.violation(bucket, {"kind": "arith", "src": "import cython\n" + k["src"], "kernel": k["name"], "args": args},
                           "%s  called with (%s): CPython %s, compiled %s" % (k["src"].strip().replace("\n", " ; "), ", ".join(args),
                                                                              want[:120], got[:120]))
        part.count("mismatching_calls", r["nmis"])
    return part


# ------------------------------------------------------------------------------------------------- parsing

def parse_strings(seed, quick):
    """-> list of (text, family)"""
    out = []
    seen = set()

    def add(s, fam):
        if s not in seen:
            seen.add(s)
            out.append((s, fam))
    for s in floatstr.FIXED:
        add(s, "fixed")
    for s in floatstr.infnan_family():
        add(s, "infnan")
    for s in floatstr.length_boundary():
        add(s, "length")
    for s in floatstr.grammar_strings(2500 if quick else 60000, seed):
        add(s, "grammar")
    for s in floatstr.small_alphabet(5 if quick else 6):
        add(s, "alphabet")
    return out


def known_crash_input(s):
    """Predicate of finding C06-nonascii-str-copy-off-by-one: for a non-ASCII str __Pyx_PyUnicode_AsDouble_WithSpaces copies
    the stripped text plus the character FOLLOWING it (loop `i <= end`) and then writes the NUL: if the stripped text has
    n >= 39 ASCII characters without '_' and is followed by an ASCII character (the terminator or an ASCII space), n + 2 bytes
    are written into an n + 1 (n == 39: 40) byte buffer.  -> None | "stack" | "heap" (superset of the crashing inputs)."""
    if s.isascii():
        return None
    t = s.strip()
    if len(t) < 39 or not t.isascii() or "_" in t:
        return None
    tail = s[s.index(t) + len(t):] if t else ""
    if tail and ord(tail[0]) > 127:
        return None
    return "stack" if len(t) == 39 else "heap"


def bytes_expr(s):
    try:
        b = s.encode("utf-8")
    except UnicodeEncodeError:
        return None
    return repr(b)


def parse_spec(strings, sanitize):
    values = []
    sets = {"str": [], "bytes": [], "bytearray": [], "strsub": [], "risky": []}
    meta = []      # per value: (text, family, kind)
    excluded = 0
    risky_done = set()
    for s, fam in strings:
        key = known_crash_input(s) if sanitize else None
        if key:
            # known finding: every such input aborts an ASan build; keep one stack and one heap representative in a separate chunk
            if key in risky_done or not s.strip().isdigit():
                excluded += 1
                continue
            risky_done.add(key)
            values.append(repr(s))
            meta.append((s, fam, "str"))
            sets["risky"].append([len(values) - 1])
            continue
        values.append(repr(s))
        meta.append((s, fam, "str"))
        sets["str"].append([len(values) - 1])
        be = bytes_expr(s)
        if be is not None:
            values.append(be)
            meta.append((s, fam, "bytes"))
            sets["bytes"].append([len(values) - 1])
            if fam != "alphabet" or len(s) <= 4:
                values.append("bytearray(%s)" % be)
                meta.append((s, fam, "bytearray"))
                sets["bytearray"].append([len(values) - 1])
        if fam in ("fixed", "infnan"):
            values.append("S.StrSub(%r)" % s)
            meta.append((s, fam, "strsub"))
            sets["strsub"].append([len(values) - 1])
    # non-string operands for the object kernel
    others = ["None", "1", "2**70", "10**400", "True", "1.5", "S.IntSub(3)", "S.FloatSub(2.5)", "Fraction(1, 3)", "Decimal('1.5')",
              "(1+2j)", "[]", "S.Idx(5)", "S.IntOnly(5)", "S.Plain()", "memoryview(b'12')", "S.BytesSub(b'1_0')", "S.BytesSub(b'1e+_5')"]
    sets["other"] = []
    for e in others:
        values.append(e)
        meta.append((e, "other", "other"))
        sets["other"].append([len(values) - 1])
    kernels = []
    for name, src, dom in PARSE_KERNELS:
        if sanitize and name in ("p_local", "p_arith"):
            continue        # same C helper as p_obj; the sanitizer batch keeps one kernel per helper entry point
        doms = {"any": ["str", "bytes", "bytearray", "strsub", "other"], "str": ["str"], "bytes": ["bytes"],
                "bytearray": ["bytearray"]}[dom]
        for d in doms:
            kernels.append({"name": name, "inputs": d, "src": src})
    nrisky = 0
    if sets["risky"]:
        for name in ("p_str", "p_obj"):
            kernels.append({"name": name, "inputs": "risky", "src": dict((n, s) for n, s, _ in PARSE_KERNELS)[name]})
            nrisky += 1
    spec = {"values": values, "inputs": sets, "kernels": [{"name": k["name"], "inputs": k["inputs"]} for k in kernels],
            "exc_args": False, "max_mismatch": 200}
    return spec, kernels, meta, excluded, nrisky


def parse_bucket(text, kind, want, got):
    feats = []
    if "_" in text:
        t = text
        if any(x in t for x in ("e+_", "e-_", "E+_", "E-_")):
            feats.append("underscore-after-exponent-sign")
        else:
            feats.append("underscore")
    if not text.isascii():
        feats.append("nonascii")
    if "\x00" in text:
        feats.append("nul")
    if any(c in text for c in "\x1c\x1d\x1e\x1f"):
        feats.append("x1c-x1f")
    if "e" in text.lower() and "underscore-after-exponent-sign" not in feats:
        feats.append("exp")
    if any(c.isspace() for c in text):
        feats.append("ws")
    return "parse:%s:%s:%s" % (kind, "+".join(feats) or "plain", value_kind(want, got))


def _parse_shard(arg):
    seed, quick, sanitize = arg
    tree.activate_view()
    part = harness.Part()
    strings = parse_strings(seed, quick)
    spec, kernels, meta, excluded, nrisky = parse_spec(strings, sanitize)
    part.count("asan_inputs_excluded_known_finding" if sanitize else "excluded", excluded)
    src = "import cython\n\n" + "".join(s for _, s, _ in PARSE_KERNELS)
    nk = len(kernels)
    name = "c06p_%s" % ("san" if sanitize else "plain")
    outdir = os.path.join(tree.workdir(), "c06")
    # chunking: risky kernels (expected sanitizer aborts) are isolated in single-kernel chunks at the end
    res = kdiff.run_table(src, name, outdir, spec, sanitize=sanitize, chunk=(1 if sanitize else None), max_crashes=3,
                          timeout=1500)
    if res.status != "ok":
        part.violation("build:parse:%s%s" % (res.status, ":asan" if sanitize else ""), {"kind": "build", "src": src, "sanitize": sanitize},
                       "parse kernel module does not build/import/run: %s" % str(res.detail)[:600])
        return part
    tag = "asan" if sanitize else "plain"
    for k, r in zip(kernels, res.kernels):
        tuples = spec["inputs"][k["inputs"]]
        n = r["n"]
        if r.get("incomplete"):
            part.count("incomplete_kernel_runs")
        part.evaluations += n
        part.classes["parse:%s:%s:%s" % (tag, k["name"], k["inputs"])] += n
        for ti, tup in enumerate(tuples[:n]):
            text, fam, kind = meta[tup[0]]
            interesting = kind != "other" and (floatstr.is_interesting(text) or (ti < len(r["summ"]) and r["summ"][ti] == "E"))
            if interesting:
                part.nt.add(harness.khash(["p", tag, k["name"], spec["values"][tup[0]]]))
        fams = {}
        for tup in tuples[:n]:
            fams[meta[tup[0]][1]] = fams.get(meta[tup[0]][1], 0) + 1
        for f, c in fams.items():
            part.classes["parse-family:%s" % f] += c
        part.classes["parse-ref:ValueError"] += r["exc"].get("ValueError", 0)
        if len(part.samples) < 4 and n > 5:
            ti = (len(part.samples) * 7919 + 13) % n
            part.samples.append({"kernel": k["src"], "arg": spec["values"][tuples[ti][0]], "build": tag, "agrees": True,
                                 "cpython_outcome": "exception" if r["summ"][ti] == "E" else "value"})
        for ti, what in r["crashes"]:
            text, fam, kind = meta[tuples[ti][0]]
            arg = spec["values"][tuples[ti][0]]
            san = "asan-" + ("stack" if "stack-buffer" in what else "heap" if "heap-buffer" in what else "other") if sanitize else "crash"
            feats = ("nonascii" if not text.isascii() else "ascii") + (":len>=39" if len(text.strip()) >= 39 else ":len<39")
            part.violation("parse:%s:%s:%s:%s" % (k["name"], san, kind, feats),
                           {"kind": "parse", "src": "import cython\n" + k["src"], "kernel": k["name"], "args": [arg], "sanitize": sanitize},
                           "%s(%s) aborted the process: %s" % (k["name"], arg[:80], what))
        seen = set()
        for ti, want, got in r["mism"]:
            text, fam, kind = meta[tuples[ti][0]]
            arg = spec["values"][tuples[ti][0]]
            bucket = parse_bucket(text, kind, want, got) if kind != "other" else "parse:other:%s:%s" % (arg[:20], value_kind(want, got))
            if bucket in seen:
                continue
            seen.add(bucket)
            part.violation(bucket, {"kind": "parse", "src": "import cython\n" + k["src"], "kernel": k["name"], "args": [arg],
                                    "sanitize": sanitize},
                           "%s(%s): CPython %s, compiled %s%s" % (k["name"], arg[:100], want[:80], got[:80], " [ASan build]" if sanitize else ""))
        part.count("mismatching_calls", r["nmis"])
    return part


def _job(arg):
    if arg[0] == "arith":
        return _arith_shard(arg[1:])
    return _parse_shard(arg[1:])


def run(ctx):
    kernels = make_arith_kernels()
    nmod = 3 if ctx.quick else 6
    jobs = [("parse", ctx.seed, ctx.quick, True), ("parse", ctx.seed, ctx.quick, False)]
    jobs += [("arith", ctx.seed, s, kernels[s::nmod], ctx.quick) for s in range(nmod)]
    ctx.pmap(_job, jobs)
    ctx.extra["kernels"] = {"arith": len(kernels), "parse": len(PARSE_KERNELS)}
    ctx.rule = ("arithmetic: %d kernels on C doubles (6 binary operators x {expr, in-place, typed local, float annotation, object result, "
                "double-with-long both orders, double-with-object both orders, constant operands %s both orders, /0.0}, 6 comparisons x "
                "{value, condition, with long, chained}, unary/conversion kernels int/round/abs/bool/not/and/or/min/max/divmod/str/repr) x "
                "(special set of %d doubles squared + targeted exact-multiple and integer-rounding quotient pairs + seeded Hypothesis "
                "pairs); non-trivial = operand tuple from the special set or a targeted pair (random pairs are not counted). "
                "parsing: float() kernels typed object/str/bytes/bytearray x (all strings over {1 _ . e + - space} up to length 5/6, "
                "inf/nan edit family, 36..44/100-character numbers with ASCII and non-ASCII padding and underscores, Hypothesis grammar "
                "strings with mutations, fixed list), also as bytes/bytearray/str-subclass, in a plain and an ASan+UBSan build; "
                "non-trivial = text contains '_', non-ASCII, whitespace or an exponent, or CPython rejects it; distinct by "
                "(build, kernel, input). Oracle: same source under CPython; compared value (float.hex), type, exception type"
                % (len(kernels), CONSTS, len(SPECIAL)))
    ctx.assumptions = ["CPython 3.12 is the reference semantics", "exception messages are not compared (types only, per the statement)",
                       "ASan batch: inputs matching an OPEN finding's predicate are reduced to one representative per overflow kind "
                       "(counter asan_inputs_excluded_known_finding)"]


def replay(ctx, case):
    out = os.path.join(ctx.work, "c06replay", harness.khash(case))
    if case.get("kind") == "build":
        from vlib import cybuild
        try:
            cybuild.build(case["src"], "c06replay", out, sanitize=case.get("sanitize", False), flags=(kdiff.SAN_FLAGS if case.get("sanitize") else None))
        except (cybuild.CythonError, cybuild.CCError) as e:
            return True, "build fails: %s" % str(e)[:300]
        return False, "builds"
    want, got = kdiff.replay_one(case["src"], case["kernel"], case["args"], out, sanitize=case.get("sanitize", False),
                                 exc_args=False)
    if want == "same":
        return False, "outcomes agree"
    return True, "%s(%s): CPython %s, compiled %s" % (case["kernel"], ", ".join(a[:80] for a in case["args"]), want[:120], got[:160])
