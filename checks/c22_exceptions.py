"""C22 - exception handling semantics match CPython (DESIGN §4 C22, engine E2)."""
import json
import os

from vlib import diffmod, e2util, harness, tree
from vlib.gen import excprog

PID = "C22"
LEVEL = "exploration"
META = {
    "technique": "property-based differential testing: generated nested try/except/else/finally/except*/with/loop programs with bit-selected raise/return/break/continue points, all bit combinations executed; block log, sys.exc_info() and exception chains compared with CPython",
    "level_text": "Exploration: Hypothesis-seeded generator of functions made of nested (depth <= 3) try/except (typed, tuple, bare, named handlers)/else/finally, try/except* with exception groups, with-statements over context managers that suppress / raise in __enter__ / raise in __exit__, and for-loops; guarded actions raise user exceptions (plain, from X, from None, from a handler name, re-raise by name, bare raise also outside handlers, via a call, interpreter-raised ZeroDivisionError, exception groups), return, break or continue. Every block logs its id and sys.exc_info(); each function is run for every combination of its <= 6 guard bits, outside and inside an active outer handler; the propagated exception is rendered recursively with __cause__/__context__/__suppress_context__ and group members, and sys.exc_info() after the call is recorded. All of it is compared with CPython executing the identical source. Sampling of programs, exhaustive in the guard bits; no proof.",
    "level_note": "Trusts CPython 3.12 as reference; messages of interpreter-raised exceptions are not compared (only user exceptions carry compared args); tracebacks are C44's subject; compiled code runs in isolated runner subprocesses.",
}
K = 10


def case_of(it, exprs):
    return {"header": excprog.HEADER, "setup": excprog.SETUP, "src": it["src"], "exprs": list(exprs),
            "paths": it.get("meta", {}).get("paths", {})}


def _log(o):
    return e2util.log_of(o)


def _tag(entry):
    """canon'd log entry -> (tag string, rest)"""
    try:
        if entry[0] == "tuple" and entry[1] and entry[1][0][0] == "str":
            return entry[1][0][1].strip("'\""), entry[1][1:]
    except (IndexError, TypeError):
        pass
    return "?", entry


def _etype(ei):
    """canon of ei() -> type name or 'None'"""
    try:
        if ei[0] == "None":
            return "None"
        if ei[0] == "tuple":
            return ei[1][0][1].strip("'\"")
    except (IndexError, TypeError):
        pass
    return "?"


def _kind(tag):
    return tag.split(".", 1)[1] if "." in tag else tag


def _path(tag, paths):
    bid = tag.split(".", 1)[0]
    p = paths.get(bid)
    if p is None:
        return "cm" if bid.startswith("c") else "top"
    return "/".join(x for x in p if x) or "top"


def _star_flags(paths):
    """static flags of the program: has try/except*; has an except* try nested inside a with block"""
    star = any("ts" in p for p in paths.values())
    star_in_with = any("with" in p and "ts" in p[p.index("with"):] for p in paths.values())
    return star, star_in_with


def _caught_bare_reraise(src):
    """static: a bare `raise` sits in the BODY of a try statement that is itself nested inside an except handler
    or a finally block (the re-raised exception can be caught again while the outer handler/finally is active), or
    directly in a finally block (which may have been entered without a propagating exception)"""
    import ast
    try:
        t = ast.parse(src)
    except (SyntaxError, TypeError):
        return False

    def has_bare_raise(nodes):
        for n in nodes:
            if isinstance(n, ast.Raise) and n.exc is None:
                return True
            if isinstance(n, (ast.FunctionDef, ast.Lambda, ast.ClassDef)):
                continue
            for f, v in ast.iter_fields(n):
                if f == "handlers":
                    continue
                if isinstance(v, list) and v and isinstance(v[0], ast.stmt) and has_bare_raise(v):
                    return True
        return False

    def tries_in(nodes):
        for n in nodes:
            for m in ast.walk(n):
                if isinstance(m, (ast.Try, getattr(ast, "TryStar", ast.Try))):
                    yield m

    for n in ast.walk(t):
        regions = []
        if isinstance(n, ast.ExceptHandler):
            regions.append(n.body)
        fb = getattr(n, "finalbody", None)
        if fb:
            regions.append(fb)
            if has_bare_raise(fb):
                return True      # a bare raise directly in a finally block (entered by return/fall-through: no saved exception)
        for reg in regions:
            for tr in tries_in(reg):
                if has_bare_raise(tr.body):
                    return True
    return False


def _return_in_finally_in_handler(src):
    """static: inside an except handler, a try statement with `return` both in its finally block and in its
    try/except/else parts"""
    import ast
    try:
        t = ast.parse(src)
    except (SyntaxError, TypeError):
        return False

    def has_return(nodes):
        for n in nodes:
            for m in ast.walk(n):
                if isinstance(m, ast.Return):
                    return True
        return False
    for h in ast.walk(t):
        if isinstance(h, ast.ExceptHandler):
            for n in h.body:
                for m in ast.walk(n):
                    if isinstance(m, ast.Try) and m.finalbody and has_return(m.finalbody) \
                            and (has_return(m.body) or has_return(m.handlers) or has_return(m.orelse)):
                        return True
    return False


def bucket_of(cls, r, g, paths, src=None):
    b = _bucket_of(cls, r, g, paths)
    if b.startswith("crash") and src and not _caught_bare_reraise(src) and _return_in_finally_in_handler(src):
        b += "|rfr"
    star, star_in_with = _star_flags(paths)
    if src and _caught_bare_reraise(src):
        b += "|brc"
    if star:
        b += "|star-in-with" if (star_in_with and b.startswith("crash")) else "|star"
    return b


def _bucket_of(cls, r, g, paths):
    """Root-cause bucket: first diverging log entry (block kind, nesting path of construct kinds, what differs);
    programs containing try/except* get the suffix |star (|star-in-with for crashes when it is inside a with)."""
    kind = cls.split(":")[0]
    if kind.startswith("crash") or kind in ("timeout", "notrun"):
        return cls
    rl, gl = _log(r), _log(g)
    if rl != gl:
        i = 0
        while i < len(rl) and i < len(gl) and rl[i] == gl[i]:
            i += 1
        rt, rrest = _tag(rl[i]) if i < len(rl) else ("end", None)
        gt, grest = _tag(gl[i]) if i < len(gl) else ("end", None)
        prev = _tag(rl[i - 1])[0] if i > 0 else "start"
        if rt == gt:
            # same block reached, logged exception state differs
            re_ = "/".join(_etype(x) for x in rrest)
            ge_ = "/".join(_etype(x) for x in grest)
            what = "type" if re_ != ge_ else "args"
            return "excinfo|%s|in:%s|%s:%s->%s" % (_kind(rt), _path(rt, paths), what, re_, ge_)
        return "flow|after:%s|in:%s|%s>%s" % (_kind(prev), _path(prev, paths) if prev != "start" else "top", _kind(rt), _kind(gt))
    if r[0] == "ok" and g[0] == "ok":
        # wrapper result: ((kind, payload), (after, ei)[, (after2, ei)])
        try:
            rv, gv = r[1][1], g[1][1]
            ro, go = rv[0][1], gv[0][1]
            rk, gk = ro[0][1], go[0][1]
            if rk != gk:
                return "result|%s>%s" % (rk.strip("'"), gk.strip("'"))
            if ro != go:
                if rk.strip("'") == "exc":
                    rc, gc = ro[1][1], go[1][1]
                    names = ["type", "args", "members", "cause", "context", "suppress"]
                    for n, a, b in zip(names, rc, gc):
                        if a != b:
                            return "result|exc-chain:%s" % n
                return "result|value"
            for a, b in zip(rv[1:], gv[1:]):
                if a != b:
                    return "result|%s:%s->%s" % (a[1][0][1].strip("'"), _etype(a[1][1]), _etype(b[1][1]))
        except (IndexError, TypeError):
            pass
        return "result|?"
    return "wrapper|" + cls


def _refkind(r):
    """coarse shape of the reference outcome (kept fixed while reducing): ok/exc + propagated exception type"""
    try:
        o = r[1][1][0][1]
        k = o[0][1].strip("'")
        return k + (":" + o[1][1][0][1].strip("'") if k == "exc" else "")
    except (IndexError, TypeError, AttributeError):
        return str(r[0])


def _shard(arg):
    seed, shard, nmods = arg
    tree.activate_view()
    part = harness.Part()
    outdir = os.path.join(tree.workdir(), "c22", "s%d" % shard)

    def on_item(it, refs, gots):
        meta = it["meta"]
        for c, r, g in zip(it["cases"], refs, gots):
            raised = '"E' in json.dumps(r) or "Error" in json.dumps(r)[:4000]
            nt = meta["nest"] >= 2 and raised
            part.case([it["src"], c["expr"]], nt, ["feat:" + f for f in meta["features"]] + ["wrapper:" + c["expr"].split("(")[0]],
                      sample={"src": it["src"], "call": c["expr"], "cpython": diffmod.json_short(r, 600),
                              "compiled": diffmod.json_short(g, 600)})
            if r[0] == "timeout" or g[0] == "timeout":
                part.count("timeouts")
            cls = diffmod.compare(r, g, "full")
            if cls is not None:
                b = bucket_of(cls, r, g, meta["paths"], it["src"])
                part.violation(b, dict(case_of(it, [c["expr"]]), refkind=_refkind(r)),
                               "%s: %s: CPython %s vs compiled %s" % (c["expr"], cls, diffmod.json_short(r, 700), diffmod.json_short(g, 700)))

    for m in range(nmods):
        items = excprog.draw_items(K, seed, ("c22", shard, m), "%d_%d" % (shard, m))
        e2util.process(part, items, "c22m_%d_%d" % (shard, m), outdir, excprog.HEADER, on_item, case_of,
                       setup=excprog.SETUP, always_log=True)
    return part


def _run_case(case, outdir, name="c22r"):
    items = [{"src": case["src"], "cases": [{"expr": e} for e in case["exprs"]]}]
    return diffmod.run_batch(items, name, outdir, header=case["header"], setup=case.get("setup"), always_log=True)


def _reduce_one(job):
    bucket, case, work = job
    tree.activate_view()
    from vlib import cybuild

    def pred(text):
        try:
            res = _run_case(dict(case, src=text), os.path.join(work, "c22red", cybuild.sha12(bucket)), "red")
        except Exception:
            return False
        if res.status != "ok":
            return False
        for r, g in zip(res.ref[0], res.got[0]):
            cls = diffmod.compare(r, g, "full")
            if cls is not None and bucket_of(cls, r, g, case.get("paths", {}), text).split("|")[0] == bucket.split("|")[0] \
                    and _refkind(r) == want:
                return True
        return False
    want = case.get("refkind")
    return bucket, e2util.reduce_ast(case["src"], pred, budget=12)


def run(ctx):
    nmods = 1 if ctx.quick else 20
    ctx.pmap(_shard, [(ctx.seed, s, nmods) for s in range(16)])
    findings = harness.load_findings()
    firsts = {}
    for bucket, case, what in ctx.violations:
        if "|" in bucket and bucket not in firsts and len(firsts) < 3 \
                and harness.match_finding(PID, bucket, case, findings) is None:
            firsts[bucket] = case
    jobs = [(b, c, ctx.work) for b, c in firsts.items()]
    smalls = dict(ctx.pmap(_reduce_one, jobs)) if jobs else {}
    out, done = [], set()
    for bucket, case, what in ctx.violations:
        if bucket in smalls and bucket not in done:
            done.add(bucket)
            case = dict(case, src=smalls[bucket])
        out.append((bucket, case, what))
    ctx.violations = out
    ctx.rule = ("Hypothesis-seeded generator of functions with nested (depth <= 3, <= ~16 blocks) try/except/else/finally, try/except*, with, "
                "for; <= 6 guard bits select raise (8 forms)/return/break/continue points; every function runs for all 2^b bit values via wrapper W "
                "(no active exception) and for all (b <= 4) or 16 sampled values via WH (inside an active `except KeyError`); 10 functions per module; "
                "oracle = same source under CPython: block LOG with sys.exc_info() (type + user args), result, rendered exception chain "
                "(__cause__/__context__/__suppress_context__, group members), exc_info after the call. "
                "non-trivial = program nests >= 2 constructs and an exception was raised on that input; distinct by (source, call)")
    ctx.assumptions = ["CPython 3.12 is the reference", "messages of interpreter-raised exceptions are not compared (types only)",
                       "tracebacks are not compared (C44)"]


def replay(ctx, case):
    res = _run_case(case, os.path.join(ctx.work, "c22replay"))
    if res.status != "ok":
        return True, "build status %s: %s" % (res.status, str(res.detail)[:300])
    for e, r, g in zip(case["exprs"], res.ref[0], res.got[0]):
        c = diffmod.compare(r, g, "full")
        if c is not None:
            return True, "%s: %s: CPython %s vs compiled %s" % (e, bucket_of(c, r, g, case.get("paths", {}), case["src"]),
                                                               diffmod.json_short(r, 600), diffmod.json_short(g, 600))
    return False, "outcomes agree"
