"""C20 - operands and targets are evaluated left-to-right exactly once (DESIGN §4 C20, engine E2)."""
import os

from vlib import diffmod, e2util, harness, tree
from vlib.gen import evalorder

PID = "C20"
LEVEL = "exploration"
META = {
    "technique": "property-based differential testing: generated statements whose leaves are logging calls and whose containers/targets are logging proxies; LOG sequence compared with CPython",
    "level_text": "Exploration: Hypothesis-seeded generator of single statements (calls with positional/*/keyword/** mixes, subscripts, slices, attribute and nested targets, augmented/chained/unpacking/starred/swap assignments, displays with unpackings, boolean and conditional expressions, comparison chains, f-strings, with items, def defaults and decorators, class bases/keywords/decorators, del, for targets, assert/raise-from, except clauses) over logging leaves E(i, v) / raising leaves R(i) and logging proxy objects; typed (cython.int/long/bint, list, dict) and untyped locals. ~24 functions per module, compiled from the working tree, each called with 1-3 argument tuples; the event LOG, result and exception are compared with CPython running the identical source. Differences are bucketed by AST context and role of the first diverging events. Sampling, no proof.",
    "level_note": "Trusts CPython 3.12 as the reference; compiled code runs in isolated runner subprocesses; the moment a display hashes its keys is deliberately not logged (not a sub-expression evaluation); programs the compiler rejects or crashes on are counted, not judged (C43).",
}
K = 24


def case_of(it, exprs):
    return {"header": evalorder.HEADER, "src": it["src"], "exprs": list(exprs)}


def bucket_of(src, cls, r, g):
    kind = cls.split(":")[0]
    if kind in ("log", "log-after-exc", "excargs", "exc->ok", "ok->exc", "exctype"):
        sig = e2util.logdiff_signature(src, r, g)
        if kind in ("exc->ok", "ok->exc", "exctype"):
            kind = cls
        return "%s|%s" % (kind, sig)
    if kind == "value":
        import ast
        try:
            fn = ast.parse(src).body[0]
            st = fn.body[-2] if len(fn.body) >= 2 else fn.body[-1]
            return "value|" + e2util.node_desc(st)
        except SyntaxError:
            return "value|?"
    return cls


def _shard(arg):
    seed, shard, nmods, depth = arg
    tree.activate_view()
    part = harness.Part()
    outdir = os.path.join(tree.workdir(), "c20", "s%d" % shard)

    def on_item(it, refs, gots):
        meta = it["meta"]
        nt = meta["leaves"] >= 3 and meta["side"] >= 1
        for c, r, g in zip(it["cases"], refs, gots):
            part.case([it["src"], c["expr"]], nt, ["outcome:" + r[0]] + ["feat:" + f for f in meta["features"]],
                      sample={"src": it["src"], "call": c["expr"], "cpython": diffmod.json_short(r, 400),
                              "compiled": diffmod.json_short(g, 400)})
            if r[0] == "timeout" or g[0] == "timeout":
                part.count("timeouts")
            cls = diffmod.compare(r, g, "full")
            if cls is not None:
                b = bucket_of(it["src"], cls, r, g)
                part.violation(b, case_of(it, [c["expr"]]),
                               "%s: %s: CPython %s vs compiled %s" % (c["expr"], cls, diffmod.json_short(r, 500), diffmod.json_short(g, 500)))

    for m in range(nmods):
        items = evalorder.draw_items(K, seed, ("c20", shard, m), "%d_%d" % (shard, m), max_depth=depth)
        e2util.process(part, items, "c20m_%d_%d" % (shard, m), outdir, evalorder.HEADER, on_item, case_of)
    return part


def _reduce_one(job):
    bucket, case, work = job
    tree.activate_view()
    from vlib import cybuild

    def pred(text):
        items = [{"src": text, "cases": [{"expr": e} for e in case["exprs"]]}]
        try:
            res = diffmod.run_batch(items, "red", os.path.join(work, "c20red", cybuild.sha12(bucket)), header=case["header"])
        except Exception:
            return False
        if res.status != "ok":
            return False
        for r, g in zip(res.ref[0], res.got[0]):
            cls = diffmod.compare(r, g, "full")
            if cls is not None and bucket_of(text, cls, r, g) == bucket:
                return True
        return False
    return bucket, e2util.reduce_ast(case["src"], pred, budget=25)


def run(ctx):
    nmods = 1 if ctx.quick else 20
    depth = 2
    ctx.pmap(_shard, [(ctx.seed, s, nmods, depth) for s in range(16)])
    # minimise the first case of every NEW bucket (known findings are matched on the unreduced case)
    findings = harness.load_findings()
    firsts = {}
    for bucket, case, what in ctx.violations:
        if "|" in bucket and bucket not in firsts and len(firsts) < 8 \
                and harness.match_finding(PID, bucket, case, findings) is None:
            firsts[bucket] = case
    jobs = [(b, c, ctx.work) for b, c in firsts.items()]
    smalls = dict(ctx.pmap(_reduce_one, jobs)) if jobs else {}
    out, done = [], set()
    for bucket, case, what in ctx.violations:
        if bucket in smalls and bucket not in done:
            done.add(bucket)
            case = dict(case, src=smalls[bucket])
        out.append((bucket, case, what))
    ctx.violations = out
    ctx.rule = ("Hypothesis-seeded generator: one statement per function (expression depth <= 2 below the statement form) with logging leaves "
                "E(i,v)/R(i) and logging proxies as containers, targets, callables, iterables, context managers; 24 functions per module, "
                "1-3 calls each; oracle = same source under CPython (LOG, result, exception type+args). "
                "non-trivial = >= 3 logged leaves and >= 1 side-effecting container or non-name target; distinct by (source, call)")
    ctx.assumptions = ["CPython 3.12 is the reference evaluation order",
                       "hash timing of display keys is not observed",
                       "programs rejected by the compiler (errors/crashes) are out of C20's domain (C43)"]


def replay(ctx, case):
    return diffmod.replay_case(case, os.path.join(ctx.work, "c20replay"), "full")
