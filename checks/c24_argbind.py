"""C24 - argument binding matches CPython for every signature and call (DESIGN §4 C24, engines E2 + E4)."""
import os

from vlib import cybuild, diffmod, harness, runner, tree
from vlib.gen import argbind

PID = "C24"
LEVEL = "exploration"
META = {
    "technique": "property-based differential testing: generated signatures x generated call shapes, compiled callee vs the same def under CPython, over a C-macro / directive configuration matrix",
    "level_text": "Exploration: Hypothesis-generated signatures (positional-only, defaults, *args, keyword-only, **kwargs; names that are prefixes of each other, non-ASCII) as module functions, lambdas, methods, class/static methods, cpdef functions and cdef-class methods are batched into modules and compiled from the working tree; every generated call (positional counts, keywords valid/unknown/duplicate/positional-only, *iterables, **mappings with runtime-built / str-subclass / non-str keys, functools.partial, __call__, bound/unbound, compiled call sites) is compared with CPython running the same source: bound tuple equal, or the same exception type. Each C file is built and run as default, -DCYTHON_VECTORCALL=0 and -DCYTHON_USE_UNICODE_INTERNALS=0 -DCYTHON_AVOID_BORROWED_REFS=1; some modules are re-compiled with binding=False / always_allow_keywords=False. Thousands of calls per run; no proof.",
    "level_note": "Trusts CPython 3.12 as the reference; exception messages are not compared; CYTHON_METH_FASTCALL does not exist in this tree (the macro is merged into CYTHON_VECTORCALL) so that cell is a no-op and replaced; in the always_allow_keywords=False cell single-argument signatures are skipped (documented change).",
}

CELLS = [
    ("default", []),
    ("novectorcall", ["CYTHON_VECTORCALL=0"]),
    ("nounicodeinternals", ["CYTHON_USE_UNICODE_INTERNALS=0"]),
]
DIRECTIVE_CELLS = {
    "binding0": {"binding": False},
    "aak0": {"always_allow_keywords": False},
}

FEAT_PRIO = ["map:nonmap-pairs", "map:nonmap-items_only", "map:nonmap-int", "map:nonmap-none",
             "key:hk", "key:ci", "key:strsub", "key:nonstr", "key:ni", "map:rk", "map:kg", "map:mp",
             "map:dictsub", "map:odict", "map:empty", "star:raising", "star:noniter", "star:seqonly", "star:gen",
             "star:range", "star:list", "star:tuple", "map:dict", "kw"]


def primary_feature(call):
    f = set(call["feats"])
    for p in FEAT_PRIO:
        if p in f:
            return p
    return "plain"


def bucket_of(cell, cls, meta, call, ref):
    reft = "ok"
    if ref[0] == "exc":
        reft = ref[1] + ":" + diffmod.msg_template(ref[2])[:70]
    return "%s|%s|%s|%s|%s|ref=%s" % (cell, cls, meta["kind"], call["path"], primary_feature(call), reft)


INJECTED = {"map:rk": "LookupError", "star:raising": "ValueError"}


def order_ambiguous(call, r, g):
    """A call with a component that raises on its own (raising iterator / raising mapping) AND a binding error: which
    of the two exceptions surfaces depends on the order in which the call site unpacks and checks - not on binding."""
    for f, exc in INJECTED.items():
        if f in call["feats"] and {r[1], g[1]} == {"TypeError", exc}:
            return True
    return False


def _write(path, text):
    os.makedirs(os.path.dirname(path), exist_ok=True)
    with open(path, "w", encoding="utf-8", newline="") as f:
        f.write(text)


def _cython_items(items, name, d, pyx, directives, part):
    """Cython-compile the batch, dropping items Cython rejects. Returns (items, c_path) or (None, None)."""
    ext = ".pyx" if pyx else ".py"
    for attempt in range(3):
        src = argbind.MODULE_HEADER + "\n".join(it["src"] for it in items)
        path = os.path.join(d, name + ext)
        _write(path, src)
        try:
            return items, cybuild.cython_compile(path, directives=directives)
        except Exception as e:
            # isolate rejected items (C43 judges rejections / compiler crashes; they are counted here)
            good = []
            for j, it in enumerate(items):
                p1 = os.path.join(d, "probe", "p%d%s" % (j, ext))
                _write(p1, argbind.MODULE_HEADER + it["src"])
                try:
                    cybuild.cython_compile(p1, directives=directives)
                    good.append(it)
                except cybuild.CythonError as e1:
                    part.count("cython_rejected_items")
                    for msg in diffmod.cy_error_messages(e1.errors)[:1] or ["?"]:
                        part.classes["rejected:" + msg[:80]] += 1
                except Exception as e1:
                    part.count("cython_crashed_items")
                    part.classes["compiler-crash:%s: %s" % (type(e1).__name__, str(e1)[:60])] += 1
                    part.notes.setdefault("crash_src", it["src"])
            if len(good) == len(items) or not good:
                part.count("cython_rejected_batches")
                return None, None
            items = good
    return None, None


def skip_in_cell(cell, meta):
    if cell == "aak0":
        sig = meta["sig"]
        if not sig["star"] and not sig["starstar"] and len(sig["posonly"]) + len(sig["normal"]) + len(sig["kwonly"]) <= 1:
            return True     # documented: single-argument functions reject keywords with always_allow_keywords=False
    return False


def run_module(items, name, outdir, pyx, dcell, part, cells=CELLS, record=True):
    """Build one module in all C cells (optionally under a directive cell) and compare with CPython."""
    d = os.path.join(outdir, name)
    directives = DIRECTIVE_CELLS.get(dcell) if dcell else None
    items, c_path = _cython_items(items, name, d, pyx, directives, part)
    if not items:
        return []
    flat = []
    for it in items:
        flat.extend({"expr": c["expr"]} for c in it["cases"])
    refpath = os.path.join(d, "ref", name + ".py")
    _write(refpath, argbind.MODULE_HEADER + "\n".join(it["ref_src"] for it in items))
    imp_r, ref = runner.run_cases("py", refpath, name, flat, setup=argbind.SETUP)
    if imp_r[0] != "ok":
        raise RuntimeError("reference module failed to import: %r" % (imp_r,))
    viol = []
    for cname, defines in cells:
        cell = cname if not dcell else dcell + "+" + cname
        so = os.path.join(d, "so_" + cname, name + cybuild.EXT_SUFFIX)
        os.makedirs(os.path.dirname(so), exist_ok=True)
        try:
            cybuild.cc(c_path, so, defines=defines)
        except cybuild.CCError as e:
            part.violation("build:ccerror|" + cell, {"kind": "module", "pyx": pyx, "dcell": dcell, "cell": cname,
                                                      "items": [_case_item(it, it["cases"]) for it in items]},
                           "generated C does not compile (%s): %s" % (cell, str(e)[-500:]))
            continue
        imp_c, got = runner.run_cases("so", so, name, flat, setup=argbind.SETUP)
        if imp_c != imp_r:
            part.violation("import-diff|" + cell, {"kind": "module", "pyx": pyx, "dcell": dcell, "cell": cname,
                                                   "items": [_case_item(it, it["cases"]) for it in items]},
                           "module import differs: CPython %s vs compiled %s" % (imp_r, diffmod.json_short(imp_c)))
            continue
        i = 0
        for it in items:
            meta = it["meta"]
            for c in it["cases"]:
                r, g = ref[i], got[i]
                i += 1
                if skip_in_cell(dcell, meta):
                    part.count("skipped_single_arg_aak0")
                    continue
                call = c["call"]
                if r[0] == "timeout" or g[0] == "timeout":
                    part.count("timeouts")
                if record:
                    nt = argbind.nontrivial(meta["sig"], call)
                    part.case([meta["kind"], meta["sigtext"], argbind.call_key(call)], nt,
                              ["cell:" + cell, "kind:" + meta["kind"], "path:" + call["path"], "outcome:" + r[0] +
                               (":" + r[1] if r[0] == "exc" else ""), "mode:" + call["mode"]] + ["feat:" + f for f in call["feats"]],
                              sample={"sig": "%s(%s)" % (meta["kind"], meta["sigtext"]), "call": c["shown"], "cell": cell,
                                      "cpython": diffmod.json_short(r, 160), "compiled": diffmod.json_short(g, 160)})
                cls = diffmod.compare(r, g, "exctype")
                if cls is not None and cls.startswith("exctype:") and order_ambiguous(call, r, g):
                    part.count("order_ambiguous_two_errors")
                    cls = None
                if cls is not None:
                    case = {"kind": "call", "pyx": pyx, "dcell": dcell, "cell": cname, "item": _case_item(it, [c])}
                    what = "%s(%s) called as %s [%s]: CPython %s vs compiled %s" % (
                        meta["kind"], meta["sigtext"], c["shown"], cell, diffmod.json_short(r, 200), diffmod.json_short(g, 200))
                    viol.append((bucket_of(cell, cls, meta, call, r), case, what))
    for b, c, w in viol:
        part.violation(b, c, w)
    return viol


def _case_item(it, cases):
    """self-contained replay form of an item restricted to some cases (compiled call sites stay in src)"""
    return {"src": it["src"], "ref_src": it["ref_src"], "meta": it["meta"],
            "cases": [{"expr": c["expr"], "call": c["call"], "shown": c["shown"]} for c in cases]}


def _shard(arg):
    seed, shard, nmods, k, ncalls, dcells = arg
    tree.activate_view()
    part = harness.Part()
    outdir = os.path.join(tree.workdir(), "c24", "s%d" % shard)
    for m in range(nmods):
        pyx = (shard + m) % 4 == 3
        items = argbind.draw_items(k, seed, ("c24", shard, m), "%d_%d" % (shard, m), pyx=pyx, ncalls=ncalls)
        name = "c24m_%d_%d" % (shard, m)
        run_module(items, name, outdir, pyx, None, part, cells=(CELLS if (shard + m) % 4 == 0 else CELLS[:2]))
        dc = dcells.get((shard, m))
        if dc:
            run_module(items, name + "_" + dc, outdir, pyx, dc, part, cells=CELLS[:1])
    return part


def _warm_up(ctx):
    """First in-process Cython compile is slow (imports, lexicon): do it once before forking the workers."""
    p = os.path.join(ctx.work, "c24warm", "warm.py")
    _write(p, "def f(a, *b, c=1, **d):\n    return f(a, *b, c=c, **d)\n")
    cybuild.cython_compile(p)


def run(ctx):
    _warm_up(ctx)
    if ctx.quick:
        nmods, k, ncalls = 1, 16, 36
        dcells = {(1, 0): "binding0", (5, 0): "aak0", (9, 0): "binding0", (13, 0): "aak0"}
    else:
        nmods, k, ncalls = 12, 32, 40
        dcells = {(s, m): ("binding0" if (s + m) % 2 else "aak0") for s in range(16) for m in range(0, 12, 3)}
    ctx.pmap(_shard, [(ctx.seed, s, nmods, k, ncalls, dcells) for s in range(16)])
    ctx.rule = ("Hypothesis signatures (0-6 parameters per kind: positional-only, normal, defaults, *args, keyword-only with/without "
                "defaults, **kwargs; 22-name pool with prefixes and non-ASCII names) as function/lambda/method/classmethod/"
                "staticmethod (.py) or def/cpdef/cdef-class methods (.pyx, every 4th module), %d per module, x ~%d call shapes each "
                "(valid, one mutation, or random: positional counts 0..n+2, keywords valid/unknown/duplicate/positional-only/near-miss, "
                "*tuple/list/generator/getitem-iterable/range/raising iterator/non-iterable, **dict/dict subclass/OrderedDict/Mapping ABC/"
                "keys+getitem object/raising mapping/non-mapping with literal, runtime-built, str-subclass (plain, own hash, "
                "case-insensitive) and non-str keys; direct, __call__, functools.partial, unbound, via instance, compiled call site); "
                "cells default / CYTHON_VECTORCALL=0 / CYTHON_USE_UNICODE_INTERNALS=0+CYTHON_AVOID_BORROWED_REFS=1, some modules also "
                "binding=False and always_allow_keywords=False; oracle = same def under CPython (bound tuple equal, exception TYPE equal). "
                "non-trivial = call uses keywords or unpacking, or has wrong arity / missing required keyword-only; distinct by "
                "(kind, signature, call shape)" % (k, ncalls))
    ctx.assumptions = ["CPython 3.12 is the reference semantics", "exception messages are not compared (statement: TypeError in the same cases)",
                       "always_allow_keywords=False: single-argument signatures skipped (documented behaviour change)"]
    ctx.extra["cells"] = [c for c, _ in CELLS] + sorted(DIRECTIVE_CELLS)
    ctx.extra["cells_unavailable"] = ["CYTHON_METH_FASTCALL=0 (macro does not exist in this tree; subsumed by CYTHON_VECTORCALL=0)"]


def replay(ctx, case):
    tree.activate_view()
    part = harness.Part()
    outdir = os.path.join(ctx.work, "c24replay")
    cells = [c for c in CELLS if c[0] == case["cell"]] or CELLS[:1]
    items = case["items"] if case.get("kind") == "module" else [case["item"]]
    viol = run_module(items, "c24r_" + cybuild.sha12(repr(case))[:8], outdir, case.get("pyx", False), case.get("dcell"), part,
                      cells=cells, record=False)
    allv = part.violations
    if allv:
        return True, allv[0][2]
    return False, "outcomes agree"
