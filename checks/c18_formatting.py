"""C18 - string formatting produces exactly CPython's text (DESIGN §4 C18, engines E2 + E3)."""
import os
import re

from vlib import harness, kdiff, tree
from vlib.gen import fmtspec

PID = "C18"
LEVEL = "exploration"
META = {
    "technique": "kernel table of f-strings (conversion x format spec from the mini-language grammar, literal and nested), %-format "
                 "templates (printf grammar) and str()/repr()/format() on values typed as every C integer type, double/float, bint, "
                 "Py_UCS4 and Python objects; specs are compile-time text, new Hypothesis-drawn specs per seed; differential oracle = "
                 "same source under CPython; text equality, exception type",
    "level_text": "Exploration: ~900 kernels per run (f\"{v!c:spec}\" for fixed boundary specs and seeded grammar-generated specs incl. "
                  "fill/align/sign/z/#/0/width/grouping/precision/type and non-ASCII digits; nested {width}/{precision}; multi-field "
                  "f-strings that JoinedStrNode merges; \"template\" % v / % (v,) / % (a, b) / % {'a': v} for fixed and generated printf "
                  "directives incl. * width; str(v), repr(v), format(v, spec), ascii(v)) with v typed signed/unsigned char, short, int, "
                  "long, long long, Py_ssize_t, size_t, double, float, bint, Py_UCS4 or untyped, compiled from the working tree and "
                  "called with type bounds, powers of ten +-1, code-point boundaries, special/tie/large doubles, and for untyped kernels "
                  "ints, floats, str, bytes, None, containers, subclasses, Fraction, Decimal, complex and objects with __format__. The "
                  "produced text must equal CPython's; where CPython raises, the exception type must match. Sampling of the spec "
                  "space, full product of kernels x value pools; no proof.",
    "level_note": "Trusts CPython 3.12 as reference (same source, same values, same runner process). C-typed parameters only receive "
                  "in-range values (C float kernels only float32-exact values). Exception messages are not compared. C char* values "
                  "and Py_UNICODE are not generated.",
}

INT_TYPES = list(fmtspec.INT_POOLS)


def esc(s):
    """text inside a double-quoted (f-)string literal"""
    return s


def make_kernels(seed, quick):
    """-> list of dict(name, src, family, typ, spec, pool)"""
    ks = []

    def add(family, typ, spec, body, args, pool, nt=True):
        name = "k%d" % len(ks)
        ks.append({"name": name, "src": "def %s(%s):\n%s\n" % (name, args, body), "family": family, "typ": typ, "spec": spec,
                   "pool": pool, "nt": nt})

    n_int = 20 if quick else 400
    n_flt = 15 if quick else 300
    n_obj = 20 if quick else 400
    int_specs = fmtspec.INT_FIXED + fmtspec.draw_specs(fmtspec.INT_TYPES, n_int, seed, "int")
    flt_specs = fmtspec.FLOAT_FIXED + fmtspec.draw_specs(fmtspec.FLOAT_TYPES, n_flt, seed, "float")
    obj_specs = fmtspec.OBJ_FIXED + fmtspec.draw_specs(fmtspec.INT_TYPES + fmtspec.FLOAT_TYPES + fmtspec.STR_TYPES, n_obj, seed, "obj")
    # (i) f-strings on C integers: every spec with 3 integer types (rotating), every type at least with the fixed claimed specs
    for si, sp in enumerate(int_specs):
        conv = fmtspec.CONVERSIONS[si % len(fmtspec.CONVERSIONS)] if si >= len(fmtspec.INT_FIXED) else ""
        for j in range((2 if quick else 3) if si < len(fmtspec.INT_FIXED) else 2):
            t = INT_TYPES[(si * 3 + j * 5) % len(INT_TYPES)]
            add("fstr-int", t, conv + ":" + sp, '    return f"{v%s:%s}|"' % (conv, sp), "v: %s" % t, t)
    for t in INT_TYPES:
        for sp in ("", "d", "5d", "05d", "x", "X", "o", "c", "3c", "08x", "-4d", ">06d"):
            add("fstr-int", t, ":" + sp, '    return f"<{v:%s}>"' % sp, "v: %s" % t, t)
        for sp in ("c", "2c", "5c", "05c", "300c", "d", "7d", "07d", "x"):
            # single-field f-strings (no literal text, so no JoinedStrNode): the C formatter's result is returned as is
            add("fstr-int-bare", t, ":" + sp, '    return f"{v:%s}"' % sp, "v: %s" % t, t)
        for conv in ("!r", "!s", "!a"):
            add("fstr-int", t, conv, '    return f"{v%s}"' % conv, "v: %s" % t, t)
            # conversion + format spec: the spec applies to the STRING produced by the conversion (left-aligned by default)
            for sp in (("5", ">5", "<5", "^5", "05", "5s", ".1", "d", "x", "*^7") if t in ("cython.int", "cython.ulonglong") else ("5", "05")):
                add("fstr-int-conv", t, conv + ":" + sp, '    return f"{v%s:%s}|"' % (conv, sp), "v: %s" % t, t)
        add("str-int", t, "str", "    return str(v), repr(v), ascii(v)", "v: %s" % t, t)
        add("format-int", t, "format", "    return format(v), format(v, 'x'), format(v, '05d'), format(v, ',')", "v: %s" % t, t)
        add("concat-int", t, "join", '    return f"a{v}b{v:x}c{v:3}{v}" + str(v)', "v: %s" % t, t)
        add("pct-int", t, "%d", '    return "%%d|%%5d|%%-5d|%%05d|%%x|%%s|%%r|%%i" %% (v, v, v, v, v, v, v, v)', "v: %s" % t, t)
    add("fstr-int", "cython.int", "nested", '    return f"{v:{w}d}|{v:0{w}x}|{v:{w}}"', "v: cython.int, w: cython.int", "int-w")
    add("fstr-int", "cython.long", "nested", '    return f"{v:{w}}|{v:>{w}d}"', "v: cython.long, w", "long-wobj")
    # doubles
    for si, sp in enumerate(flt_specs):
        conv = fmtspec.CONVERSIONS[si % len(fmtspec.CONVERSIONS)] if si >= len(fmtspec.FLOAT_FIXED) else ""
        add("fstr-double", "cython.double", conv + ":" + sp, '    return f"{v%s:%s}|"' % (conv, sp), "v: cython.double", "double")
        if si % 4 == 0:
            add("fstr-float32", "cython.float", ":" + sp, '    return f"{v:%s}|"' % sp, "v: cython.float", "float32")
    for conv in ("", "!r", "!s", "!a"):
        add("fstr-double", "cython.double", conv, '    return f"{v%s}"' % conv, "v: cython.double", "double")
        if conv:
            for sp in ("8", ">8", "08", ".2", ".2f", "e", "s", "^9"):
                add("fstr-double-conv", "cython.double", conv + ":" + sp, '    return f"{v%s:%s}|"' % (conv, sp), "v: cython.double", "double")
    add("str-double", "cython.double", "str", "    return str(v), repr(v), ascii(v)", "v: cython.double", "double")
    add("format-double", "cython.double", "format", "    return format(v), format(v, '.2f'), format(v, 'e'), format(v, 'g'), format(v, '10.3')",
        "v: cython.double", "double")
    add("concat-double", "cython.double", "join", '    return f"x={v}, y={v:.3f}, z={v!r}" + "|" + str(v)', "v: cython.double", "double")
    add("pct-double", "cython.double", "%f", '    return "%%f|%%.2f|%%10.3f|%%e|%%g|%%s|%%r|%%5.1f|%%+.0f|%%d" %% (v, v, v, v, v, v, v, v, v, 1)',
        "v: cython.double", "double")
    add("fstr-double", "cython.double", "nested", '    return f"{v:.{p}f}|{v:{p}.{p}e}|{v:{p}}"', "v: cython.double, p: cython.int", "double-p")
    add("str-float32", "cython.float", "str", '    return str(v), repr(v), f"{v}", "%s" % v', "v: cython.float", "float32")
    # bint, Py_UCS4
    for sp in ("", "d", "5", "5d", "x", "s", ">6", "c", "05d"):
        add("fstr-bint", "cython.bint", ":" + sp, '    return f"{v:%s}|{v}|{v!r}"' % sp, "v: cython.bint", "bint")
        add("fstr-bint-conv", "cython.bint", "!r:" + sp, '    return f"{v!r:%s}|{v!s:%s}|"' % (sp, sp), "v: cython.bint", "bint")
    add("str-bint", "cython.bint", "str", '    return str(v), repr(v), "%s %d %r" % (v, v, v), format(v)', "v: cython.bint", "bint")
    for sp in ("", "s", "5", "<5", ">5", "^5", "c", "d", "x", "5s", "*^7", "05", ".0", "r"):
        add("fstr-ucs4", "cython.Py_UCS4", ":" + sp, '    return f"{v:%s}|{v}|{v!r}|{v!a}"' % sp, "v: cython.Py_UCS4", "ucs4")
    add("str-ucs4", "cython.Py_UCS4", "str", '    return str(v), repr(v), "%s|%c|%r|%5s" % (v, v, v, v), format(v, ">3"), v + "x", v * 3',
        "v: cython.Py_UCS4", "ucs4")
    add("pct-ucs4", "cython.Py_UCS4", "%d", '    return "%d" % v', "v: cython.Py_UCS4", "ucs4")
    # objects
    for si, sp in enumerate(obj_specs):
        conv = fmtspec.CONVERSIONS[si % len(fmtspec.CONVERSIONS)]
        add("fstr-obj", "object", conv + ":" + sp, '    return f"{v%s:%s}|"' % (conv, sp), "v", "object", nt=bool(sp))
    for conv in ("", "!r", "!s", "!a"):
        add("fstr-obj", "object", conv, '    return f"{v%s}"' % conv, "v", "object", nt=False)
    for t, pool in (("str", "strs"), ("int", "pyints"), ("float", "pyfloats"), ("bytes", "pybytes")):
        for sp in ("", "5", ">8", "s", "d", "x", ".2f", "05", "^7", "e", ",", "c", "r"):
            add("fstr-typed-" + t, t, ":" + sp, '    return f"{v:%s}|{v!r:>4}|"' % sp, "v: %s" % t, pool)
        add("fstr-typed-" + t, t, "join", '    return f"{v}{v}" + f"[{v!s}]" + "%s" % v + "{}".format(v)', "v: %s" % t, pool)
    add("fstr-obj", "object", "nested", '    return f"{v:{w}}|{v!r:{w}}|{v:>{w}}"', "v, w", "object-w")
    add("fstr-obj", "object", "multi", '    return f"{v}-{w}-{v!r}{w!s:5}{{literal}}{v}" f"tail{w}"', "v, w", "object-w")
    add("str-obj", "object", "str", "    return str(v), repr(v), ascii(v), format(v)", "v", "object", nt=False)
    add("format-obj", "object", "format", "    return format(v, s)", "v, s", "object-spec")
    add("join-obj", "object", "join", '    return "".join([str(v), f"{v}", "%s" % (v,)]), ",".join(f"{x}" for x in (v, v))', "v", "object")
    # (ii) %-formatting
    templates = fmtspec.PRINTF_FIXED + fmtspec.draw_printf(25 if quick else 500, seed)
    for ti, tm in enumerate(templates):
        lit = tm.replace("\\", "\\\\").replace('"', '\\"')
        star = tm.count("*")
        mapping = "(a)" in tm
        if mapping:
            add("pct-obj", "object", tm, '    return "%s|" %% {"a": v}' % lit, "v", "object")
            continue
        if star:
            args = ", ".join(["w"] * star + ["v"])
            add("pct-obj", "object", tm, '    return "%s|" %% (%s)' % (lit, args), "v, w", "object-w")
            add("pct-int", "cython.int", tm, '    return "%s|" %% (%s)' % (lit, args), "v: cython.int, w: cython.int", "int-w")
            continue
        add("pct-obj", "object", tm, '    return "%s|" %% v' % lit, "v", "object")
        add("pct-obj", "object", tm + "(tuple)", '    return "%s|" %% (v,)' % lit, "v", "object")
        t = INT_TYPES[ti % len(INT_TYPES)]
        add("pct-int", t, tm, '    return "%s|" %% v' % lit, "v: %s" % t, t)
        if ti % 2 == 0:
            add("pct-double", "cython.double", tm, '    return "x%s|" %% (v,)' % lit, "v: cython.double", "double")
        if ti % 5 == 0:
            add("pct-obj", "object", tm + "(2)", '    return "%s %s|" %% (v, v)' % (lit, lit), "v", "object")
            add("pct-obj", "object", tm + "(arity)", '    return "%s %s|" %% (v,)' % (lit, lit), "v", "object")
    return ks


def pools():
    """pool name -> (values list, input tuples as expr lists)"""
    P = {}
    for t, vals in fmtspec.INT_POOLS.items():
        P[t] = [[str(v)] for v in vals]
    P["double"] = [[e] for e in fmtspec.DOUBLES]
    P["float32"] = [[e] for e in fmtspec.FLOATS32]
    P["bint"] = [[e] for e in fmtspec.BINTS]
    P["ucs4"] = [[e] for e in fmtspec.UCS4]
    P["object"] = [[e] for e in fmtspec.OBJECTS]
    widths = ["0", "1", "3", "8", "12", "-3"]
    P["int-w"] = [[str(v), w] for v in fmtspec.INT_POOLS["cython.int"][:16] for w in widths[:5]]
    P["long-wobj"] = [[str(v), w] for v in fmtspec.INT_POOLS["cython.long"][:12] for w in widths + ["'5'", "None", "'>6'", "''"]]
    P["double-p"] = [[e, w] for e in fmtspec.DOUBLES[:20] for w in widths[:5]]
    P["object-w"] = [[e, w] for e in fmtspec.OBJECTS[:24] for w in widths + ["'5'", "None", "'^9'", "''", "'x'"]]
    P["object-spec"] = [[e, repr(s)] for e in fmtspec.OBJECTS[:30] for s in fmtspec.OBJ_FIXED[:24]] + \
                       [[e, s] for e in fmtspec.OBJECTS[:6] for s in ("None", "5", "b'x'")]
    P["strs"] = [[e] for e in ("''", "'abc'", "'a\\u20acb'", "'x' * 12", "'\\U0001f600'", "'{}'")]
    P["pyints"] = [[e] for e in ("0", "1", "-1", "255", "10**30", "-10**30", "65", "2**63", "0x110000")]
    P["pyfloats"] = [[e] for e in ("0.0", "-0.0", "1.5", "float('nan')", "float('inf')", "1e100", "2.675", "123456.789")]
    P["pybytes"] = [[e] for e in ("b''", "b'ab'", "b'\\xff'")]
    return P


def value_class(e):
    if "nan" in e or "inf" in e:
        return "special"
    if e.startswith("'") or e.startswith("b'"):
        return "str"
    if e.startswith("S.") or e[:1].isalpha():
        return e.split("(")[0]
    try:
        v = eval(e, {})
    except Exception:
        return "expr"
    if isinstance(v, float):
        return "float"
    if isinstance(v, int):
        return "int-neg" if v < 0 else ("int-0" if v == 0 else "int-pos")
    return type(v).__name__


def _shard(arg):
    seed, shard, nshards, quick = arg
    tree.activate_view()
    part = harness.Part()
    allk = make_kernels(seed, quick)
    kernels = [k for i, k in enumerate(allk) if i % nshards == shard]
    P = pools()
    values = []
    vidx = {}

    def v(e):
        if e not in vidx:
            vidx[e] = len(values)
            values.append(e)
        return vidx[e]
    inputs = {}
    for k in kernels:
        if k["pool"] not in inputs:
            inputs[k["pool"]] = [[v(e) for e in tup] for tup in P[k["pool"]]]
    spec = {"values": values, "inputs": inputs, "prelude": fmtspec.PRELUDE, "exc_args": False,
            "kernels": [{"name": k["name"], "inputs": k["pool"]} for k in kernels], "max_mismatch": 30}
    src = "import cython\n\n" + "".join(k["src"] + "\n" for k in kernels)
    name = "c18_%d" % shard
    res = kdiff.run_table(src, name, os.path.join(tree.workdir(), "c18"), spec, max_crashes=6, timeout=900)
    if res.status == "cyerror":
        # a spec that Cython rejects at compile time: isolate the kernels (cheap: Cython only) and report each
        bad = []
        from vlib import cybuild
        for k in kernels:
            d = os.path.join(tree.workdir(), "c18", name + "_probe")
            os.makedirs(d, exist_ok=True)
            p = os.path.join(d, k["name"] + ".py")
            with open(p, "w", encoding="utf-8") as f:
                f.write("import cython\n\n" + k["src"])
            try:
                cybuild.cython_compile(p)
            except cybuild.CythonError as e:
                bad.append((k, e.errors))
        for k, errs in bad:
            # is it a compile error in CPython too (invalid f-string)?  then the kernel is outside the domain
            try:
                compile(k["src"], "<k>", "exec")
            except SyntaxError:
                part.count("kernels_invalid_in_cpython_too")
                continue
            msg = next((e for e in errs if re.match(r"^\S+:\d+:\d+:", e)), str(errs[:3]))
            part.violation("compile-error:%s:%s" % (k["family"], re.sub(r"^\S+:\d+:\d+: ", "", msg)[:60]),
                           {"kind": "build", "src": "import cython\n\n" + k["src"]},
                           "Cython rejects a kernel that CPython compiles: %s  -- %s" % (k["src"].strip().replace("\n", " ; "), msg[:200]))
        good = [k for k in kernels if k not in [b for b, _ in bad]]
        if not good or len(good) == len(kernels):
            if len(good) == len(kernels):
                part.violation("build:cyerror", {"kind": "build", "src": src}, "module fails but every kernel compiles alone: %s" % str(res.detail)[:400])
            return part
        kernels = good
        spec["kernels"] = [{"name": k["name"], "inputs": k["pool"]} for k in kernels]
        src = "import cython\n\n" + "".join(k["src"] + "\n" for k in kernels)
        res = kdiff.run_table(src, name + "g", os.path.join(tree.workdir(), "c18"), spec, max_crashes=6, timeout=900)
    if res.status != "ok":
        part.violation("build:%s" % res.status, {"kind": "build", "src": src},
                       "kernel module does not build/import/run: %s" % str(res.detail)[:600])
        return part
    for k, r in zip(kernels, res.kernels):
        tuples = inputs[k["pool"]]
        n = r["n"]
        if r.get("incomplete"):
            part.count("incomplete_kernel_runs")
        part.evaluations += n
        part.classes["family:%s" % k["family"]] += n
        part.classes["type:%s" % k["typ"].replace("cython.", "")] += n
        part.classes["ref-outcome:exception"] += r["summ"].count("E")
        ctyped = k["typ"].startswith("cython.")
        if k["nt"] or ctyped:
            for tup in tuples[:n]:
                part.nt.add(harness.khash([k["src"], [values[i] for i in tup]]))
        if len(part.samples) < 5 and n:
            ti = (len(part.samples) * 977 + shard * 131) % n
            part.samples.append({"kernel": k["src"], "args": [values[i] for i in tuples[ti]], "agrees": True,
                                 "cpython_outcome": "exception" if r["summ"][ti:ti + 1] == "E" else "text"})

        def args_of(ti):
            return [values[i] for i in tuples[ti]]
        for ti, what in r["crashes"]:
            part.violation("%s:%s:[%s]:crash:%s" % (k["family"], k["typ"].replace("cython.", ""), k["spec"], value_class(args_of(ti)[0])),
                           {"kind": "call", "src": "import cython\n" + k["src"], "kernel": k["name"], "args": args_of(ti)},
                           "%s called with %s crashed: %s" % (k["src"].strip().replace("\n", " ; "), args_of(ti), what))
        seen = set()
        for ti, want, got in r["mism"]:
            we, ge = want.startswith("E:"), got.startswith("E:")
            if we and ge:
                kind = "exctype:%s->%s" % (want.split(":")[1], got.split(":")[1])
            elif we:
                kind = "exc->ok:%s" % want.split(":")[1]
            elif ge:
                kind = "ok->exc:%s" % got.split(":")[1]
            else:
                kind = "text"
            bucket = "%s:%s:[%s]:%s:%s" % (k["family"], k["typ"].replace("cython.", ""), k["spec"], kind, value_class(args_of(ti)[0]))
            if bucket in seen:
                continue
            seen.add(bucket)
            part.violation(bucket, {"kind": "call", "src": "import cython\n" + k["src"], "kernel": k["name"], "args": args_of(ti)},
                           "%s called with %s: CPython %s, compiled %s" % (k["src"].strip().replace("\n", " ; "), args_of(ti),
                                                                           want[:200], got[:200]))
        part.count("mismatching_calls", r["nmis"])
    return part


def run(ctx):
    allk = make_kernels(ctx.seed, ctx.quick)
    nshards = 10 if ctx.quick else 40
    from vlib import cybuild
    d = os.path.join(ctx.work, "c18", "warm")
    os.makedirs(d, exist_ok=True)
    with open(os.path.join(d, "c18warm.py"), "w", encoding="utf-8") as f:
        f.write("import cython\n\n" + "".join(k["src"] + "\n" for k in allk[::40] if "٥" not in k["src"]))
    try:
        cybuild.cython_compile(os.path.join(d, "c18warm.py"))
    except cybuild.CythonError:
        pass
    ctx.pmap(_shard, [(ctx.seed, s, nshards, ctx.quick) for s in range(nshards)])
    ctx.extra["kernels"] = len(allk)
    fam = {}
    for k in allk:
        fam[k["family"]] = fam.get(k["family"], 0) + 1
    ctx.extra["kernels_by_family"] = fam
    ctx.rule = ("%d kernels: f-strings f\"{v!c:spec}\" with %d fixed specs (the ones PyrexTypes._parse_format claims for C formatting plus "
                "neighbours: padding/sign/alignment/grouping/#/non-ASCII digits) and seeded grammar-generated specs, for v typed as 12 C "
                "integer types, double, float, bint, Py_UCS4, str/int/float/bytes annotations and untyped; nested {width}/{precision}; "
                "multi-field merges; %%-templates (%d fixed + generated printf directives) applied to v, (v,), (w, v), {'a': v}, wrong "
                "arity; str/repr/ascii/format(). Every kernel is called with the whole value pool of its type (C ints: bounds, bounds-1, "
                "powers of ten +-1, code-point limits; doubles: specials, ties, extremes; objects: 36 values incl. __format__ objects). "
                "Compared: produced text, exception type. non-trivial = value is C-typed or the spec/template is non-empty; distinct "
                "by (kernel source, argument expressions)" % (len(allk), len(fmtspec.INT_FIXED) + len(fmtspec.FLOAT_FIXED) + len(fmtspec.OBJ_FIXED),
                                                             len(fmtspec.PRINTF_FIXED)))
    ctx.assumptions = ["CPython 3.12 is the reference semantics", "C-typed parameters receive in-range values only; C float kernels only "
                       "float32-exact values", "exception messages are not compared"]


def replay(ctx, case):
    out = os.path.join(ctx.work, "c18replay", harness.khash(case))
    if case.get("kind") == "build":
        from vlib import cybuild
        try:
            cybuild.build(case["src"], "c18replay", out)
        except (cybuild.CythonError, cybuild.CCError) as e:
            return True, "build fails: %s" % str(e)[:300]
        return False, "builds"
    spec = {"values": case["args"], "inputs": {"one": [list(range(len(case["args"])))]}, "prelude": fmtspec.PRELUDE, "exc_args": False,
            "kernels": [{"name": case["kernel"], "inputs": "one"}]}
    res = kdiff.run_table(case["src"], "c18r", out, spec, max_crashes=1)
    if res.status != "ok":
        return True, "build/run status %s: %s" % (res.status, str(res.detail)[:300])
    k = res.kernels[0]
    if k["crashes"]:
        return True, "%s%s crashed: %s" % (case["kernel"], case["args"], k["crashes"][0][1])
    if k["mism"]:
        return True, "%s%s: CPython %s, compiled %s" % (case["kernel"], case["args"], k["mism"][0][1][:200], k["mism"][0][2][:200])
    return False, "outcomes agree"
