"""C28 - extension-type operators dispatch like Python classes (DESIGN §4 C28, engine E2 `.pyx`).

One IR (vlib/gen/opclasses.py) is rendered as `cdef class` types in a .pyx module (compiled from the working
tree) and as plain `class` definitions with identical bodies (run by CPython = oracle).  Every generated
operator expression is evaluated on both; result / exception TYPE and the LOG of special-method calls
(which method of which class saw which operand types, in order) must agree.
"""
import os

from vlib import diffmod, harness, hyp, tree, twin
from vlib.gen import opclasses as oc

PID = "C28"
LEVEL = "exploration"
META = {
    "technique": "property-based differential testing: one class IR rendered as cdef classes (.pyx, compiled) and as Python classes (CPython oracle); operator expressions compared by result, exception type and special-method call log",
    "level_text": "Exploration: generated groups of extension types (base type, cdef or Python subclass inheriting/overriding, unrelated type) define random subsets of __op__/__rop__/__iop__ for 14 binary operator families (bodies: tag, NotImplemented, NotImplemented-for-foreign) and subsets of the six rich comparisons (with/without functools.total_ordering, with/without __hash__). All operand pairings (same type, subclass left/right, int/list, unrelated type), binary, in-place and 3-argument pow forms are evaluated on the compiled module and on the same bodies as plain Python classes; results, exception types and the ordered call LOG must agree. The thorough tier enumerates every {subset x bodies x hierarchy x pair} cell for all 14 operators. Sampling over D/O configurations; no proof.",
    "level_note": "Trusts CPython 3.12 operator dispatch on Python classes as the reference. c_api_binop_methods stays False (True is documented to differ). TypeError message texts are not compared (tp_name of extension types is module-qualified). 3-argument pow() reaching __rpow__ with a modulus is a documented Cython extension (special_methods.rst) and is excluded from comparison. Compiled code runs in isolated runner subprocesses.",
}

N_ARITH_Q, N_CMP_Q = 12, 6


def _assign_ids(groups):
    out = []
    for i, g in enumerate(groups):
        g = dict(g)
        g["id"] = str(i)
        out.append(g)
    return out


def _random_groups(seed, shard, m, n_arith, n_cmp):
    ar = hyp.draw_many(oc.arith_group(), n_arith + 1, seed, "c28a", shard, m)[1:]
    cm = hyp.draw_many(oc.cmp_group(), n_cmp + 1, seed, "c28c", shard, m)[1:]
    return _assign_ids(ar + cm)


def _enum_groups(seed):
    """Enumerated sub-space: 14 ops x 32 (subset, bodies) configs x 5 hierarchies; D/O configs drawn."""
    cfgs = oc.enum_arith_configs()
    cells = [(op, ci) for ci in range(len(cfgs)) for op in oc.OPNAMES]   # consecutive cells have distinct ops
    groups = []
    for hier in oc.HIERS:
        donors = hyp.draw_many(oc.arith_group(), (len(cells) + 2) // 3 + 2, seed, "c28enum", hier)[1:]
        for k in range(0, len(cells), 3):
            chunk = cells[k:k + 3]
            donor = donors[(k // 3) % len(donors)]
            ops = [op for op, _ in chunk]
            g = {"kind": "arith", "id": "0", "ops": ops, "hier": hier, "B": {}, "D": {}, "O": {}}
            for j, (op, ci) in enumerate(chunk):
                dop = donor["ops"][j % len(donor["ops"])]
                g["B"][op] = {r: b for r, b in cfgs[ci].items() if r in oc.roles_for(op)}
                g["O"][op] = {r: b for r, b in donor["O"][dop].items() if r in oc.roles_for(op)}
                if hier in ("covr", "povr"):
                    dd = {r: b for r, b in donor["D"][dop].items() if r in oc.roles_for(op)}
                    g["D"][op] = dd or {"rop": "tag"}
                else:
                    g["D"][op] = {}
            groups.append(g)
    return groups


def _subset_label(cfg):
    return "+".join(r for r in oc.ROLES if r in cfg) or "none"


def _case_info(g, c):
    """-> (nontrivial, key, class labels) by the DESIGN NT rule."""
    letters = [x for x in c["pair"] if x in "BDO"]
    if g["kind"] == "arith":
        effs = [oc.effective(g, x, c["op"]) for x in letters]
        full = len(oc.roles_for(c["op"]))
        nt = any(len(e) < full for e in effs) or any(b != "tag" for e in effs for b in e.values())
        key = ["arith", c["op"], c["form"], c["pair"], g["hier"], g["B"].get(c["op"]),
               g["D"].get(c["op"]) if "D" in c["pair"] else None, g["O"].get(c["op"]) if "O" in c["pair"] else None]
        labels = ["subset:" + _subset_label(effs[0])] if effs else []
    else:
        effs = [oc.cmp_effective(g, x) for x in letters]
        nt = any(len(e) < 6 for e in effs) or any(b in ("ni", "nif") for e in effs for b in e.values())
        key = ["cmp", c["op"], c["form"], c["pair"], c.get("vals"), g["hier"], g["to"], g.get("hashB"), g["B"],
               g["D"] if "D" in c["pair"] else None, g["O"] if "O" in c["pair"] else None]
        labels = ["total_ordering:%s" % ("on" if g["to"] else "off"), "cmp-subset-size:%d" % len(g["B"])]
    nt = nt or len(set(c["pair"])) > 1
    labels += ["form:" + c["form"], "hier:" + g["hier"], "pair:" + c["pair"]]
    return nt, key, labels


def _excluded(g, c, ref, got):
    """Documented / reference-side exclusions for 3-argument pow (counted, never compared):
    * the compiled LOG reaches __rpow__(self, other, mod) with `self` an instance of the generated classes:
      3-arg __rpow__ is a documented Cython extension (special_methods.rst table), CPython < 3.14 never calls it;
    * CPython itself raises AttributeError('__pow__') for pow(x, y, m) on a Python class that has the nb_power slot
      only through __rpow__/__ipow__ (slot_nb_power uses vectorcall_method): a reference quirk, not a semantics."""
    if c["form"] not in ("pow3", "pow3mod"):
        return None
    if ref[0] == "exc" and ref[1] == "AttributeError":
        return "excluded_cpython_pow3_attributeerror_quirk"
    rk, gk = oc.first_divergence(twin.log_of(ref), twin.log_of(got), g["id"])
    if ".rop(" in gk and gk.endswith(("mod", "moddup")) and gk[gk.index("(") + 1] in "BDO":
        return "excluded_documented_pow3_rpow"
    return None


def _cmp_features(g, c):
    """Input features of a comparison case that select the (known) root-cause class; 'plain' if none applies."""
    f = []
    if g["to"]:
        if "__eq__" not in g["B"] and "__ne__" not in g["B"]:
            f.append("noeq")
        else:
            src = "__eq__" if "__eq__" in g["B"] else "__ne__"
            if g["B"][src] in ("ni", "nif"):
                f.append("eqni")
            if "__eq__" in g["B"] and "__ne__" in g["B"]:
                f.append("eqne")
            elif "__ne__" in g["B"]:
                f.append("neonly")
    if "D" in c["pair"] and g["D"]:
        f.append("dsub-" + g["hier"] + "-" + "+".join(n.strip("_") for n in sorted(g["D"])))
    return "+".join(f) or "plain"


def _derived(g, c):
    """1 if the evaluated operator (or its mirror image) is not directly defined by one of the B/D operand classes."""
    mirror = {"__lt__": "__gt__", "__gt__": "__lt__", "__le__": "__ge__", "__ge__": "__le__", "__eq__": "__eq__",
              "__ne__": "__ne__"}
    for x in c["pair"]:
        if x in "BD":
            eff = oc.cmp_effective(g, x)
            if c["op"] not in eff or mirror.get(c["op"], c["op"]) not in eff:
                return 1
    return 0


def _bucket(g, c, cls, r, gt):
    """Root-cause bucket.
    arithmetic: form;difference;pair;hierarchy;ref=<first LOG divergence, reference side>;got=<compiled side>
    comparison: form;to=<total_ordering>;feat=<input features>;derived=<0|1>;difference;pair;hierarchy;ref=..;got=..
    hash:       hash;difference;class letter;hierarchy;B=cmp?eq?hash?;D=cmp?eq?"""
    rk, gk = oc.first_divergence(twin.log_of(r), twin.log_of(gt), g["id"])
    if c["form"] == "hash":
        return "hash;%s;%s;%s;B=cmp%deq%dhash%d;D=cmp%deq%d" % (
            cls, c["pair"], g["hier"], int(bool(g["B"])), int("__eq__" in g["B"]), int(bool(g.get("hashB"))),
            int(bool(g["D"])), int("__eq__" in g["D"]))
    if g["kind"] == "cmp":
        return "%s;to=%d;feat=%s;derived=%d;%s;%s;%s;ref=%s;got=%s" % (
            c["form"], int(g["to"]), _cmp_features(g, c), _derived(g, c), cls, c["pair"], g["hier"], rk, gk)
    return "%s;%s;%s;%s;ref=%s;got=%s" % (c["form"], cls, c["pair"], g["hier"], rk, gk)


def _compare_group(part, g, cases, ref, got):
    for c, r, gt in zip(cases, ref, got):
        ex = _excluded(g, c, r, gt)
        if ex:
            part.count(ex)
            continue
        nt, key, labels = _case_info(g, c)
        cls = diffmod.compare(r, gt, "exctype")
        part.case(key, nt, labels + ["outcome:" + r[0]],
                  sample={"group": g, "expr": c["expr"], "cpython": diffmod.json_short(r), "compiled": diffmod.json_short(gt)})
        if r[0] in ("timeout", "notrun") or gt[0] in ("timeout", "notrun"):
            part.count("timeouts_or_notrun")
        if cls is not None:
            part.violation(_bucket(g, c, cls, r, gt),
                           {"group": g, "expr": c["expr"], "form": c["form"], "op": c["op"], "pair": c["pair"]},
                           "%s [%s]: Python classes %s vs cdef classes %s" % (
                               c["expr"], _describe(g, c),
                               diffmod.json_short(r), diffmod.json_short(gt)))


def _describe(g, c):
    if g["kind"] == "arith":
        return "hier=%s B=%s D=%s O=%s" % (g["hier"], g["B"].get(c["op"]), g["D"].get(c["op"]), g["O"].get(c["op"]))
    return "hier=%s total_ordering=%s B=%s D=%s O=%s" % (g["hier"], g["to"], g["B"], g["D"], g["O"])


def _run_module(part, groups, name, outdir):
    per = [oc.cases_of(g) for g in groups]
    flat = [{"expr": c["expr"]} for cs in per for c in cs]
    res = twin.run(oc.render_module(groups, True), oc.render_module(groups, False), name, outdir, flat)
    if res.status != "ok":
        if len(groups) == 1:
            part.violation("build:%s" % res.status, {"group": groups[0], "expr": None},
                           "module of one group does not build/import identically: %s" % str(res.detail)[:500])
        else:
            part.count("module_build_failures")
            for i, g in enumerate(groups):
                _run_module(part, [g], "%s_g%d" % (name, i), outdir)
        return
    i = 0
    for g, cs in zip(groups, per):
        _compare_group(part, g, cs, res.ref[i:i + len(cs)], res.got[i:i + len(cs)])
        i += len(cs)
    part.count("modules")
    part.count("groups", len(groups))


def _shard(arg):
    name, groups = arg
    tree.activate_view()
    part = harness.Part()
    _run_module(part, groups, name, os.path.join(tree.workdir(), "c28"))
    return part


def run(ctx):
    jobs = []
    if ctx.quick:
        for s in range(12):
            jobs.append(("c28q%d" % s, _random_groups(ctx.seed, s, 0, N_ARITH_Q, N_CMP_Q)))
    else:
        enum = _enum_groups(ctx.seed)
        per = 16
        for k in range(0, len(enum), per):
            jobs.append(("c28e%d" % (k // per), _assign_ids(enum[k:k + per])))
        for s in range(48):
            jobs.append(("c28t%d" % s, _random_groups(ctx.seed, s, 1, N_ARITH_Q, N_CMP_Q)))
    ctx.pmap(_shard, jobs)
    if not ctx.quick and not ctx.counters.get("module_build_failures"):
        ctx.exhaustive = True
        ctx.extra["enumerated_subspace"] = ("14 operator families x every subset of {__op__,__rop__,__iop__} x bodies "
                                            "{tag,NotImplemented,NotImplemented-for-foreign}^2 x 5 hierarchies x all operand "
                                            "pairs/forms (D and O configurations drawn)")
    ctx.rule = ("Hypothesis-drawn class groups: arithmetic groups (3 of 14 operator families; for B, D-overrides and O an "
                "independent subset of {__op__,__rop__,__iop__} with bodies tag/NotImplemented/NotImplemented-for-foreign; "
                "hierarchy in single/cdef-sub-inherit/cdef-sub-override/py-sub-inherit/py-sub-override) and comparison groups "
                "(subset of the six rich comparisons, bodies tag/value/NI/NI-foreign, total_ordering on/off, __hash__ on/off); "
                "%d+%d groups per module, 12 modules per quick run; every operand pair (BB BD DB DD BO OB OO DO OD, int/list on either side) in binary, "
                "in-place and pow(x,y,m) forms; oracle = identical bodies as Python classes under CPython (value, exception "
                "type, call LOG). non-trivial = an operand class lacks one of the methods of the family, or a body can return "
                "NotImplemented, or operand types differ; distinct by (operator, form, pair, hierarchy, method configs)"
                % (N_ARITH_Q, N_CMP_Q))
    ctx.assumptions = ["CPython 3.12 operator dispatch on plain Python classes is the reference",
                       "c_api_binop_methods=False (default); TypeError texts not compared",
                       "3-arg pow() calling __rpow__(self, other, mod) is documented Cython behaviour (excluded, counted)"]


def _replay_one(arg):
    work, case = arg
    tree.activate_view()
    g = dict(case["group"])
    outdir = os.path.join(work, "c28replay")
    name = "c28r_" + harness.khash(case)
    if case.get("expr") is None:
        res = twin.run(oc.render_module([g], True), oc.render_module([g], False), name, outdir, [])
        return res.status != "ok", "build/import status %s: %s" % (res.status, str(res.detail)[:300])
    res = twin.run(oc.render_module([g], True), oc.render_module([g], False), name, outdir, [{"expr": case["expr"]}])
    if res.status != "ok":
        return True, "build/import status %s: %s" % (res.status, str(res.detail)[:300])
    r, gt = res.ref[0], res.got[0]
    ex = _excluded(g, {"form": case.get("form", "binop")}, r, gt)
    if ex:
        return False, ex
    cls = diffmod.compare(r, gt, "exctype")
    if cls is None:
        return False, "outcomes agree: %s" % diffmod.json_short(r)
    return True, "%s: %s: Python classes %s vs cdef classes %s" % (case["expr"], cls, diffmod.json_short(r),
                                                                   diffmod.json_short(gt))


def replay(ctx, case):
    return twin.cached_replay(ctx, PID, case, _replay_one)
