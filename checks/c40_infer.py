"""C40 - safe type inference never changes pure-Python results (DESIGN §4 C40, engines E2 + E4)."""
import os
import re

from vlib import cybuild, diffmod, harness, runner, tree
from vlib.gen import infer

PID = "C40"
LEVEL = "exploration"
META = {
    "technique": "property-based three-way differential testing: generated numeric programs with untyped locals compiled with infer_types=None (safe default) and infer_types=False, and run by CPython",
    "level_text": "Exploration: Hypothesis-generated pure-Python functions whose untyped locals are used in shapes that tempt type inference (x = x * k + 1 in loops growing past 2**63, while/for counters with steps, arithmetic on range variables with huge factors, int/float mixing and re-assignment with the other type, floor division and modulo on floats, chained assignment, swaps, augmented assignments from arguments incl. shifts/power, len() results, booleans used arithmetically, variables assigned in one branch only or with different types per branch, closures over inferred variables) are compiled from the working tree twice - default safe inference and inference switched off - and called with small loop bounds and integer arguments from 0 to beyond 2**64, special floats and strings. All locals are returned, so result values AND types (int/float/bool) are observed. The two compiled variants must agree completely; each must agree with CPython (exception types only). Non-triviality is decided from the generated C: the safe-inference build really declared a C-typed local for the function. Thousands of calls per run; no proof.",
    "level_note": "Trusts CPython 3.12 as reference; messages of exceptions are only compared between the two compiled variants; infer_types=True (documented unsafe) is not run.",
}
K = 36
CTYPE_RE = re.compile(r"^\s*(long|double|Py_ssize_t|int|size_t|unsigned long|PY_LONG_LONG|long long|float)\s+(__pyx_v_\w+);", re.M)


def _write(path, text):
    os.makedirs(os.path.dirname(path), exist_ok=True)
    with open(path, "w", encoding="utf-8", newline="") as f:
        f.write(text)


def c_typed_locals(c_path):
    with open(c_path, encoding="utf-8", errors="replace") as f:
        text = f.read()
    out = {}
    for m in CTYPE_RE.finditer(text):
        out[m.group(2)[len("__pyx_v_"):]] = m.group(1)
    return out


def interesting_value(outcome):
    """some returned value exceeds 2**31 or is a float zero / NaN"""
    found = [False]

    def walk(c):
        if not isinstance(c, list) or not c:
            return
        if c[0] == "int" and len(c) > 1 and isinstance(c[1], str):
            try:
                if abs(int(c[1], 0)) > 2 ** 31:
                    found[0] = True
            except ValueError:
                found[0] = True
        elif c[0] == "float" and len(c) > 1 and c[1] in ("nan", "0x0.0p+0", "-0x0.0p+0"):
            found[0] = True
        else:
            for x in c[1:]:
                if isinstance(x, list):
                    for y in x:
                        walk(y)
    if outcome[0] == "ok":
        walk(outcome[1])
    return found[0]


def diff_signature(meta, ctyped, a, b, cls):
    """Root-cause label for a difference between two outcomes of the same call (a = expected side)."""
    if a[0] == "ok" and b[0] == "ok" and a[1][0] == "tuple" and b[1][0] == "tuple" and len(a[1][1]) == len(b[1][1]):
        diffs = [(nm, x, y) for nm, x, y in zip(meta["locals"], a[1][1], b[1][1]) if x != y]
        # several locals may differ because one mis-typed local flows into others (w = closure returning y):
        # label by the first differing local that inference gave a C type, else by the first differing local
        diffs.sort(key=lambda d: ctyped.get(d[0][2:] if d[0].startswith("m_") else d[0], "object") == "object")
        for nm, x, y in diffs[:1]:
            base = nm.split("_")[0].rstrip("0123456789") if not nm.startswith("m_") else "maybe-unbound"
            ctype = ctyped.get(nm[2:] if nm.startswith("m_") else nm, "object")
            if x == ["str", "'unbound'"]:
                kind = "unbound-local-not-raised"
            elif y == ["str", "'unbound'"]:
                kind = "spurious-unbound"
            elif x[0] != y[0]:
                same = False
                try:
                    vx = float.fromhex(x[1]) if x[0] == "float" else (x[1] == "True" if x[0] == "bool" else int(x[1], 0))
                    vy = float.fromhex(y[1]) if y[0] == "float" else (y[1] == "True" if y[0] == "bool" else int(y[1], 0))
                    same = vx == vy
                except Exception:
                    pass
                kind = "type:%s->%s%s" % (x[0], y[0], "" if same else "+value")
            else:
                kind = "value:" + x[0]
            if ctype == "object" and kind.startswith("type:int->float") and "double" in ctyped.values():
                # the differing local is an object computed from a local that inference typed as C double
                ctype = "object-via-double"
            return "%s@%s|ctype=%s" % (kind, base, ctype)
    if b[0] == "crash" or a[0] == "crash":
        hint = [t for t in ("chained-assign", "one-branch-assign", "closure", "swap") if t in meta["tags"]]
        return "%s|%s" % (cls, ",".join(hint) or "-")
    return "%s|%s" % (cls, ",".join(meta["tags"][:5]))


def build_variant(items, name, outdir, directives, part):
    """-> (items kept, so path, c path) dropping items Cython rejects"""
    d = os.path.join(outdir, name)
    for attempt in range(3):
        path = os.path.join(d, name + ".py")
        _write(path, "\n".join(it["src"] for it in items) + "\n")
        try:
            c_path = cybuild.cython_compile(path, directives=directives)
            break
        except Exception:
            good = []
            for j, it in enumerate(items):
                p1 = os.path.join(d, "probe", "p%d.py" % j)
                _write(p1, it["src"] + "\n")
                try:
                    cybuild.cython_compile(p1, directives=directives)
                    good.append(it)
                except cybuild.CythonError as e1:
                    part.count("cython_rejected_items")
                    for msg in diffmod.cy_error_messages(e1.errors)[:1] or ["?"]:
                        part.classes["rejected:" + msg[:80]] += 1
                except Exception as e1:
                    part.count("cython_crashed_items")
                    part.classes["compiler-crash:%s: %s" % (type(e1).__name__, str(e1)[:60])] += 1
            if len(good) == len(items) or not good:
                return None, None, None
            items = good
    else:
        return None, None, None
    so = os.path.join(d, "so", name + cybuild.EXT_SUFFIX)
    os.makedirs(os.path.dirname(so), exist_ok=True)
    cybuild.cc(c_path, so)
    return items, so, c_path


def run_module(items, name, outdir, part, record=True):
    try:
        items, so_n, c_n = build_variant(items, name + "_n", outdir, {"infer_types": None}, part)
        if not items:
            part.count("batches_lost")
            return
        items2, so_f, c_f = build_variant(items, name + "_f", outdir, {"infer_types": False}, part)
    except cybuild.CCError as e:
        part.violation("build:ccerror", {"items": [_slim(it, it["cases"]) for it in items]}, "generated C does not compile: %s" % str(e)[-500:])
        return
    if not items2 or len(items2) != len(items):
        part.count("batches_lost")
        return
    flat = [c for it in items for c in it["cases"]]
    refpath = os.path.join(outdir, name + "_n", name + "_n.py")
    imp_r, ref = runner.run_cases("py", refpath, name + "_n", flat)
    imp_n, got_n = runner.run_cases("so", so_n, name + "_n", flat)
    imp_f, got_f = runner.run_cases("so", so_f, name + "_f", flat)
    if imp_r[0] != "ok":
        raise RuntimeError("reference import failed %r" % (imp_r,))
    for tag, imp in (("none", imp_n), ("false", imp_f)):
        if imp != imp_r:
            part.violation("import-diff|" + tag, {"items": [_slim(it, it["cases"]) for it in items]},
                           "module import differs (%s): %s" % (tag, diffmod.json_short(imp)))
            return
    ctyped = c_typed_locals(c_n)
    i = 0
    for it in items:
        meta = it["meta"]
        typed = sorted("%s:%s" % (ctyped[v], v.split("_")[0].rstrip("0123456789")) for v in ctyped if v.endswith("_" + meta["uid"]))
        for c in it["cases"]:
            r, n, f = ref[i], got_n[i], got_f[i]
            i += 1
            if record:
                nt = bool(typed) and (interesting_value(r) or interesting_value(n))
                part.case([it["src"], c["expr"]], nt,
                          ["outcome:" + r[0] + (":" + r[1] if r[0] == "exc" else ""), "ctyped:%d" % min(len(typed), 3)] +
                          ["tag:" + t for t in meta["tags"]] + ["ctype:" + t.split(":")[0] for t in typed],
                          sample={"src": it["src"], "call": c["expr"], "c_typed_locals": typed, "cpython": diffmod.json_short(r, 200),
                                  "infer_none": diffmod.json_short(n, 200), "infer_false": diffmod.json_short(f, 200)}, n=3)
            if "timeout" in (r[0], n[0], f[0]):
                part.count("timeouts")
                continue
            for pair, a, b, mode in (("none-vs-false", f, n, "full"), ("none-vs-cpython", r, n, "exctype"), ("false-vs-cpython", r, f, "exctype")):
                cls = diffmod.compare(a, b, mode)
                if cls is not None:
                    if cls.startswith("excmsg:") or cls.startswith("excargs:"):
                        part.count("message_only_difference_between_variants")
                        continue
                    part.violation("%s|%s" % (pair, diff_signature(meta, ctyped, a, b, cls)), _slim(it, [c]),
                                   "%s on\n%s: CPython %s / infer_types=None %s / infer_types=False %s (C-typed locals with safe inference: %s)" % (
                                       c["expr"], it["src"], diffmod.json_short(r), diffmod.json_short(n), diffmod.json_short(f), typed))
                    break


def _slim(it, cases):
    return {"src": it["src"], "meta": it["meta"], "cases": [{"expr": c["expr"]} for c in cases]}


def _shard(arg):
    seed, shard, nmods, ncalls = arg
    tree.activate_view()
    part = harness.Part()
    outdir = os.path.join(tree.workdir(), "c40", "s%d" % shard)
    for m in range(nmods):
        items = infer.draw_items(K, seed, ("c40", shard, m), "%d_%d" % (shard, m), ncalls=ncalls)
        run_module(items, "c40m_%d_%d" % (shard, m), outdir, part)
    return part


def _warm_up(ctx):
    p = os.path.join(ctx.work, "c40warm", "warm.py")
    _write(p, "def f(n):\n    x = 1\n    for i in range(n):\n        x = x * 3 + i\n    return x\n")
    cybuild.cython_compile(p)


def run(ctx):
    _warm_up(ctx)
    nmods = 1 if ctx.quick else 12
    ncalls = 8 if ctx.quick else 12
    ctx.pmap(_shard, [(ctx.seed, s, nmods, ncalls) for s in range(16)])
    ctx.rule = ("Hypothesis functions f(n, k, r, s) (vlib/gen/infer.py: 2-4 initial assignments, 2-5 statements from for-range / while-step / "
                "if-else / branch-typed / one-branch / closure / augmented / swap / grow-mul / type-switching assignments over int, float and "
                "bool locals), %d per module, each module compiled with infer_types=None and infer_types=False; %d calls each with n in "
                "0..12, k in {0, +-1, ..., 2**31, 2**63, 2**64+3, 10**20, -10**25}, r in special floats, s in short strings; oracle: the two "
                "compiled variants agree completely (values, types, exception type; message-only differences are counted) and each agrees "
                "with CPython (values, types, exception type). non-trivial = the infer_types=None C file declares >=1 C-typed local "
                "(long/double/Py_ssize_t/int __pyx_v_<name>) of that function and a returned value exceeds 2**31 or is a float zero/NaN; "
                "distinct by (source, call); every call counts 3 evaluations (three pairwise comparisons)" % (K, ncalls))
    ctx.assumptions = ["CPython 3.12 is the reference semantics", "exception messages are not compared with CPython"]


_REPLAY_CACHE = {}


def _committed_batch(ctx):
    """all committed single-function replays are built as ONE module (two builds instead of two per finding)"""
    if _REPLAY_CACHE:
        return
    _REPLAY_CACHE["_done"] = True
    items = []
    for path, rep in harness.committed_replays(PID):
        case = rep.get("case", {})
        if "src" in case and "meta" in case:
            items.append({"src": case["src"], "meta": case["meta"], "cases": case["cases"]})
    if len({it["meta"]["uid"] for it in items}) != len(items) or not items:
        return
    part = harness.Part()
    run_module(items, "c40rb", os.path.join(ctx.work, "c40replaybatch"), part, record=False)
    hit = {}
    for bucket, case, what in part.violations:
        hit.setdefault(case.get("src"), what)
    for it in items:
        _REPLAY_CACHE[it["src"]] = hit.get(it["src"])


def replay(ctx, case):
    tree.activate_view()
    if "src" in case:
        _committed_batch(ctx)
        if case["src"] in _REPLAY_CACHE:
            what = _REPLAY_CACHE[case["src"]]
            return (what is not None), (what or "all three agree")
    part = harness.Part()
    items = [{"src": case["src"], "meta": case["meta"], "cases": case["cases"]}] if "src" in case else case["items"]
    run_module(items, "c40r_" + cybuild.sha12(repr(case))[:8], os.path.join(ctx.work, "c40replay"), part, record=False)
    if part.violations:
        return True, part.violations[0][2]
    return False, "all three agree"
