"""C08 - C double complex arithmetic matches Python complex (DESIGN §4 C08, engine E3).

One .pyx module of kernels on `double complex` operands (+ - * / ** unary -, abs, ==, .real/.imag, conjugate,
conversion in and out, mixed complex/double operands, constant operands, in-place forms, both cdivision settings) is
compiled twice: with -DCYTHON_CCOMPLEX=0 (Cython's own helpers in Utility/Complex.c - the code the property anchors;
compared on the full special-value grid) and natively (C99 _Complex; finite operands and results only, / and **
with a tolerance because libgcc/libm use different algorithms).
"""
import os

from hypothesis import strategies as st

from vlib import cintmodel as cm
from vlib import cybuild, harness, hyp, ktable, runner, tree

PID = "C08"
LEVEL = "exploration"
META = {
    "technique": "typed kernel tables: double complex kernels (+,-,*,/,**,unary -,abs,==,real/imag,conjugate,conversions, mixed real operands, constants, in-place; cdivision on/off) driven over the full 14^4 special-value component grid and Hypothesis complex pairs, compared with Python complex arithmetic by float.hex (sign of zero, nan), in a CYTHON_CCOMPLEX=0 build (strict) and a native C99 build (finite only)",
    "level_text": "Exploration with an exhaustively enumerated special-value grid: every binary kernel sees all 14^4 = 38416 operand pairs whose four components come from {+-0.0, +-1, +-inf, nan, 1e308, 1e-308, 5e-324, 0.5, -0.5, 3.0} (thorough; quick: a seeded 1/6 slice plus the full 14^2 grid for unary kernels), plus Hypothesis-drawn finite pairs. In the CYTHON_CCOMPLEX=0 build results must equal Python's bit for bit (float.hex, nan matched as nan) for + - * neg conj real imag == and conversions; / and ** are compared the same way and any difference is classified (nan / inf / zero-sign / last-bits / wrong-value). The native _Complex build is checked on finite operands and finite results, with 1e-13 relative tolerance for / and **. Sampling for ordinary values; no proof.",
    "level_note": "Trusts CPython 3.12 complex arithmetic (Objects/complexobject.c) as reference and gcc -O0 x86-64 SSE2 doubles (no FMA contraction, no x87 excess precision). Inputs where Python itself raises OverflowError (abs / pow overflow) or pow raises ZeroDivisionError are outside the statement (no Python value); division by zero under cdivision is C-defined and skipped.",
}

HEADER = "# cython: language_level=3\ncimport cython\n"
CD = "@cython.cdivision(True)\n"
CP = "@cython.cpow(True)\n"
COMPONENTS = [0.0, -0.0, 1.0, -1.0, float("inf"), float("-inf"), float("nan"), 1e308, 1e-308, 5e-324, 0.5, -0.5, 3.0, -2.5]

# (name, source, op, nargs, params) ; nargs counts runtime operands
KERNELS = [
    ("add", "def K(double complex a, double complex b):\n    return a + b\n", "add", 2, {}),
    ("sub", "def K(double complex a, double complex b):\n    return a - b\n", "sub", 2, {}),
    ("mul", "def K(double complex a, double complex b):\n    return a * b\n", "mul", 2, {}),
    ("div", "def K(double complex a, double complex b):\n    return a / b\n", "div", 2, {}),
    ("div_cdivision", CD + "def K(double complex a, double complex b):\n    return a / b\n", "div", 2, {"cdivision": True}),
    ("div_withblock", "def K(double complex a, double complex b):\n    with cython.cdivision(True):\n        return a / b\n", "div", 2, {"cdivision": True}),
    ("pow", "def K(double complex a, double complex b):\n    return a ** b\n", "pow", 2, {"soft": True}),
    ("pow_cpow", CP + "def K(double complex a, double complex b):\n    return a ** b\n", "pow", 2, {}),
    ("iadd", "def K(double complex a, double complex b):\n    a += b\n    return a\n", "add", 2, {}),
    ("imul", "def K(double complex a, double complex b):\n    a *= b\n    return a\n", "mul", 2, {}),
    ("idiv", "def K(double complex a, double complex b):\n    a /= b\n    return a\n", "div", 2, {}),
    ("eq", "def K(double complex a, double complex b):\n    return a == b\n", "eq", 2, {}),
    ("ne", "def K(double complex a, double complex b):\n    return a != b\n", "ne", 2, {}),
    ("neg", "def K(double complex a):\n    return -a\n", "neg", 1, {}),
    ("abs", "def K(double complex a):\n    return abs(a)\n", "abs", 1, {}),
    ("real", "def K(double complex a):\n    return a.real\n", "real", 1, {}),
    ("imag", "def K(double complex a):\n    return a.imag\n", "imag", 1, {}),
    ("conj", "def K(double complex a):\n    return a.conjugate()\n", "conj", 1, {}),
    ("bool", "def K(double complex a):\n    return bool(a)\n", "bool", 1, {}),
    ("id_arg", "def K(double complex a):\n    return a\n", "id", 1, {}),
    ("id_local", "def K(a):\n    cdef double complex z = a\n    return z\n", "id", 1, {}),
    ("id_cast", "def K(a):\n    return <double complex>a\n", "id", 1, {}),
    ("id_parts", "def K(double complex a):\n    cdef double complex z\n    z.real = a.real\n    z.imag = a.imag\n    return z\n", "id", 1, {}),
    ("pow_int", "def K(double complex a, int b):\n    return a ** b\n", "pow", 2, {"bint": True}),
    ("pow_2", "def K(double complex a):\n    return a ** 2\n", "pow", 1, {"constb": 2}),
    ("pow_3", "def K(double complex a):\n    return a ** 3\n", "pow", 1, {"constb": 3}),
    ("pow_4", "def K(double complex a):\n    return a ** 4\n", "pow", 1, {"constb": 4}),
    ("pow_m1", "def K(double complex a):\n    return a ** -1\n", "pow", 1, {"constb": -1}),
    ("pow_half", CP + "def K(double complex a):\n    return a ** 0.5\n", "pow", 1, {"constb": 0.5}),
    ("mul_double", "def K(double complex a, double b):\n    return a * b\n", "mul", 2, {"breal": True}),
    ("div_double", "def K(double complex a, double b):\n    return a / b\n", "div", 2, {"breal": True}),
    ("double_div", "def K(double a, double complex b):\n    return a / b\n", "div", 2, {"areal": True}),
    ("add_double", "def K(double complex a, double b):\n    return a + b\n", "add", 2, {"breal": True}),
    ("double_sub", "def K(double a, double complex b):\n    return a - b\n", "sub", 2, {"areal": True}),
    ("mul_2", "def K(double complex a):\n    return a * 2\n", "mul", 1, {"constb": 2}),
    ("div_2", "def K(double complex a):\n    return a / 2\n", "div", 1, {"constb": 2}),
    ("one_div", "def K(double complex b):\n    return 1 / b\n", "div", 1, {"consta": 1}),
    ("mul_1j", "def K(double complex a):\n    return a * 1j\n", "mul", 1, {"constb": ["c", 0.0, 1.0]}),
    ("add_1j", "def K(double complex a):\n    return a + (2.5-1j)\n", "add", 1, {"constb": ["c", 2.5, -1.0]}),
]


def module_source():
    out = [HEADER]
    ks = []
    for name, src, op, nargs, extra in KERNELS:
        k = "k_" + name
        text = src.replace("def K(", "def %s(" % k)
        ks.append(dict(k=k, name=name, text=text, src=HEADER + text, op=op, nargs=nargs, extra=extra))
        out.append(text)
    return "".join(out), ks


def enc_c(re, im):
    return ["c", cm.encode_num(re), cm.encode_num(im)]


def operand_axes(d, seed, quick, strict):
    """input spec for kernel d"""
    comp = COMPONENTS
    allc = [enc_c(r, i) for r in comp for i in comp]
    reals = [cm.encode_num(x) for x in comp + [2.0, 1e-5]]
    ex = d["extra"]
    n_h = 60 if quick else 2000
    finite = st.floats(-1e6, 1e6, allow_nan=False, allow_infinity=False)
    wide = st.floats(allow_nan=False, allow_infinity=False)
    hc = [enc_c(a, b) for a, b in hyp.draw_many(st.tuples(st.one_of(finite, wide), st.one_of(finite, wide)), n_h * 2 + 1, seed, "c08", d["name"])[1:]]
    if d["nargs"] == 1:
        if d["op"] == "id" and d["name"] in ("id_local", "id_cast", "id_arg"):
            extra_objs = [1.5, -0.0, 3, True, ["sub", 7], ["wc", enc_c(1.5, -0.0)], ["f", "nan"], 2 ** 70]
            return [{"kind": "list", "items": [[v] for v in allc + hc + extra_objs]}]
        return [{"kind": "list", "items": [[v] for v in allc + hc]}]
    # binary
    if ex.get("bint"):
        bs = [-5, -4, -3, -2, -1, 0, 1, 2, 3, 4, 5, 6, 7, 10, 31, 100]
        return [{"kind": "product", "axes": [allc + hc[:40], bs]}]
    a_axis = reals if ex.get("areal") else allc
    b_axis = reals if ex.get("breal") else allc
    if quick and len(a_axis) * len(b_axis) > 8000:
        # seeded 1/6 slice of the 14^4 grid (thorough: the full grid): every 6th left operand x all right operands
        sel = hyp.derive(seed, "c08slice", d["name"]) % 6
        a_axis = [v for i, v in enumerate(a_axis) if i % 6 == sel]
    hpairs = [[hc[2 * i], hc[2 * i + 1]] for i in range(len(hc) // 2)]
    if ex.get("areal"):
        hpairs = [[p[0][1], p[1]] for p in hpairs]
    if ex.get("breal"):
        hpairs = [[p[0], p[1][1]] for p in hpairs]
    return [{"kind": "product", "axes": [a_axis, b_axis]}, {"kind": "list", "items": hpairs}]


EXACT_OPS = {"add", "sub", "mul", "neg", "conj", "real", "imag", "eq", "ne", "id", "bool", "abs"}


def _unit(arg):
    cfg, seed, quick, work, chunk, nchunks = arg
    strict = cfg == "ccomplex=0"
    tree.activate_view()
    part = harness.Part()
    src, ks = module_source()
    name = "c08m"
    defines = ["CYTHON_CCOMPLEX=0"] if strict else []
    so = cybuild.build(src, name, os.path.join(work, "c08", "strict" if strict else "native", str(chunk)), ext=".pyx", defines=defines)
    specs = []
    for i, d in enumerate(ks):
        if i % nchunks != chunk:
            continue
        params = {"op": d["op"]}
        for key in ("cdivision", "consta", "constb", "soft"):
            if key in d["extra"]:
                params[key] = d["extra"][key]
        if not strict:
            # native C99 _Complex: Annex G arithmetic legitimately differs from CPython's textbook formulas in signed zeros,
            # non-finite and overflowing/underflowing intermediates: finite moderate operands only, sign of zero ignored
            # (tol 0.0 = exact value, zero sign ignored); pure conversion kernels stay bit-exact.
            params["finite_only"] = True
            params["skip_extreme"] = True
            if d["op"] in ("div", "pow", "abs"):
                params["tol"] = 1e-13
            elif d["op"] in ("add", "sub", "mul"):
                params["tol"] = 0.0
        label = "kernel=%s|build=%s" % (d["name"], cfg)
        for inp in operand_axes(d, seed, quick, strict):
            specs.append({"k": d["k"], "judge": ["cplx", params], "enc": "num", "inputs": inp,
                          "label": label, "bucket": "kernel=%s|build=%s" % (d["name"], cfg), "src": d["src"],
                          "build": {"ext": ".pyx", "defines": defines}, "ktext": d["text"], "maxnt": 16, "maxbad": 60})
    ktable.run_specs(so, name, specs, part, keyprefix="c08:" + cfg)
    return part


def run(ctx):
    nchunks = 3
    ctx.pmap(_unit, [(cfg, ctx.seed, ctx.quick, ctx.work, c, nchunks) for cfg in ("ccomplex=0", "native") for c in range(nchunks)])
    ctx.extra["distinct_nontrivial_exact"] = int(ctx.counters.get("nt_exact", 0))
    ctx.exhaustive = None if ctx.quick else True
    ctx.rule = ("%d kernels on double complex (binary + - * / ** == != and in-place forms, / under cdivision decorator and with-block, ** with "
                "cpow on/off, ** int variable / literal 2,3,4,-1,0.5, unary - abs real imag conjugate bool, conversions typed-arg / cdef "
                "local / cast / component assignment, mixed complex-double operands, constant operands) x builds {CYTHON_CCOMPLEX=0, native}; "
                "inputs: components from {+-0.0,+-1,+-inf,nan,1e308,1e-308,5e-324,+-0.5,3,-2.5}: all 196 values for unary kernels, all 14^4 "
                "pairs (thorough) or a seeded 1/6 slice (quick) for binary kernels, plus Hypothesis finite complex pairs; oracle = the same "
                "operator on Python complex, compared by float.hex per component (nan == nan). non-trivial = some operand component is "
                "zero, non-finite, >= 1e300 or <= 1e-300, or a divisor with both components non-zero (Smith branch choice); distinct by "
                "(build, kernel, operands); distinct_nontrivial is a bounded hashed sample, exact count in coverage.distinct_nontrivial_exact"
                % len(KERNELS))
    ctx.assumptions = ["CPython complexobject.c is the reference; gcc -O0 SSE2 (no FMA contraction)",
                       "native C99 _Complex build judged on finite operands and finite results only, / and ** within 1e-13 (Annex G / libgcc "
                       "__divdc3 / libm cpow legitimately differ)",
                       "inputs where Python raises OverflowError, or ZeroDivisionError from **, have no Python value and are skipped; "
                       "zero divisor under cdivision skipped"]


def replay(ctx, case):
    return ktable.replay(ctx, case)
