"""C36 - generated code is free of memory errors / UB under ASan+UBSan (DESIGN §4 C36, engine E5)."""
import os
import re

from hypothesis import strategies as st

from vlib import cybuild, diffmod, harness, hyp, runner, tree
from vlib.gen import pyprog

PID = "C36"
LEVEL = "exploration"
META = {
    "technique": "differential fuzzing of sanitizer-instrumented (ASan+UBSan) generated modules with generated programs and out-of-contract inputs",
    "level_text": "Exploration: the generated pure-Python programs of C01 (all C arithmetic there is compiler-introduced) and a table of builtin-sequence/str/bytes/int kernels fed with out-of-contract inputs (huge/negative indices and counts, wrong types, None) are compiled from the working tree with gcc -fsanitize=address,undefined and executed under the sanitizer runtimes; any ASan/UBSan report or signal whose stack enters the generated module is a violation, and the outcomes must still equal CPython's.",
    "level_note": "The interpreter itself is not instrumented; reports are attributed to the module when a frame of the report lies in the module's .so.  -fsanitize=function/vptr are off (CPython casts function pointers).",
}

# ---------------------------------------------------------------- risky-input kernels (valid Python, so CPython is the oracle)
KERNEL_SRC = '''
def k_list_get(l: list, i): return l[i]
def k_list_get_c(l: list, i: cython.Py_ssize_t): return l[i]
def k_tuple_get(t: tuple, i): return t[i]
def k_tuple_get_c(t: tuple, i: cython.Py_ssize_t): return t[i]
def k_str_get(s: str, i): return s[i]
def k_str_get_c(s: str, i: cython.Py_ssize_t): return s[i]
def k_bytes_get(b: bytes, i): return b[i]
def k_bytes_get_c(b: bytes, i: cython.Py_ssize_t): return b[i]
def k_obj_get(o, i): return o[i]
def k_obj_get_c(o, i: cython.Py_ssize_t): return o[i]
def k_list_slice(l: list, a, b): return l[a:b]
def k_list_slice_c(l: list, a: cython.Py_ssize_t, b: cython.Py_ssize_t): return l[a:b]
def k_tuple_slice(t: tuple, a, b): return t[a:b]
def k_tuple_slice_c(t: tuple, a: cython.Py_ssize_t, b: cython.Py_ssize_t): return t[a:b]
def k_str_slice(s: str, a, b): return s[a:b]
def k_str_slice_c(s: str, a: cython.Py_ssize_t, b: cython.Py_ssize_t): return s[a:b]
def k_bytes_slice(s: bytes, a, b): return s[a:b]
def k_bytes_slice_c(s: bytes, a: cython.Py_ssize_t, b: cython.Py_ssize_t): return s[a:b]
def k_ba_slice_c(s: bytearray, a: cython.Py_ssize_t, b: cython.Py_ssize_t): return s[a:b]
def k_list_set_c(l: list, i: cython.Py_ssize_t, v):
    l = list(l)
    l[i] = v
    return l
def k_list_del(l: list, i):
    l = list(l)
    del l[i]
    return l
def k_list_pop(l: list, i):
    l = list(l)
    return l.pop(i), l
def k_list_pop_c(l: list, i: cython.Py_ssize_t):
    l = list(l)
    return l.pop(i), l
def k_list_insert_c(l: list, i: cython.Py_ssize_t, v):
    l = list(l)
    l.insert(i, v)
    return l
def k_str_startswith(s: str, p, a, b): return s.startswith(p, a, b)
def k_str_endswith(s: str, p, a, b): return s.endswith(p, a, b)
def k_bytes_startswith(s: bytes, p, a, b): return s.startswith(p, a, b)
def k_bytes_endswith(s: bytes, p, a, b): return s.endswith(p, a, b)
def k_bytes_startswith1(s: bytes, p, a): return s.startswith(p, a)
def k_str_find(s: str, p, a, b): return s.find(p, a, b)
def k_str_count(s: str, p, a, b): return s.count(p, a, b)
def k_str_mul(s: str, n): return s * n
def k_bytes_decode_slice(s: bytes, a: cython.Py_ssize_t, b: cython.Py_ssize_t): return s[a:b].decode('utf8')
def k_bytes_decode_slice2(s: bytes, a: cython.Py_ssize_t): return s[a:].decode('latin-1')
def k_float(x): return float(x)
def k_float_s(x: str): return float(x)
def k_float_b(x: bytes): return float(x)
def k_int(x): return int(x)
def k_ord(x): return ord(x)
def k_chr(x): return chr(x)
def k_chr_c(x: cython.long): return chr(x)
def k_lshift(x, n): return x << n
def k_lshift7(x): return x << 7
def k_lshift62(x): return x << 62
def k_rshift(x, n): return x >> n
def k_rshift3(x): return x >> 3
def k_add1(x): return x + 1
def k_sub1(x): return x - 1
def k_mul3(x): return x * 3
def k_mulbig(x): return x * 1073741823
def k_neg(x): return -x
def k_abs(x): return abs(x)
def k_floordiv7(x): return x // 7
def k_mod7(x): return x % 7
def k_divmodm1(x): return x // -1, x % -1
def k_and(x): return x & 255
def k_fmt_d(x): return f"{x:d}|{x:5}|{x!r}"
def k_fmt_c(x: cython.long): return f"{x:d}|{x:>22}|{x:x}"
def k_pct(x): return "%d|%5s|%r" % (x, x, x)
def k_join(l): return ",".join(l)
def k_tuple_unpack3(t):
    a, b, c = t
    return c, b, a
def k_star_unpack(t):
    a, *b, c = t
    return a, b, c
def k_dict_get(d: dict, k): return d.get(k), d.get(k, 5)
def k_set_ops(s: set, v):
    s = set(s)
    s.add(v)
    s.discard(v)
    return sorted(s, key=repr)
def k_enumerate(l, n):
    return [(i, x) for i, x in enumerate(l, n)]
def k_range_c(a: cython.int, b: cython.int, c: cython.int):
    out = []
    for i in range(a, b, c):
        out.append(i)
        if len(out) > 40: break
    return out
def k_reversed_range(a, b, c):
    out = []
    for i in reversed(range(a, b, c)):
        out.append(i)
        if len(out) > 40: break
    return out
def k_unicode_in(c, s: str): return c in s
def k_ucs4_in(c: cython.Py_UCS4): return c in 'abc\\xe9\\u4e2d'
def k_bytes_in(c, s: bytes): return c in s
def k_isinstance(x): return isinstance(x, (int, str)), isinstance(x, int)
def k_sorted(l): return sorted(l)
def k_minmax(a, b, c): return min(a, b, c), max(a, b, c)
def k_sum(l): return sum(l)
def k_str_idx_cmp(s: str, i: cython.Py_ssize_t): return s[i] == 'a'
def k_bytearray_append(v):
    b = bytearray(b'ab')
    b.append(v)
    return b
def k_bytes_mul(b: bytes, n: cython.Py_ssize_t): return b * n if -5 < n < 50 else None
'''
KERNEL_HEADER = "import cython\nLOG = []\n"

BIG = ["sys.maxsize", "-sys.maxsize - 1", "sys.maxsize - 1", "2**31", "-2**31", "2**31 - 1", "2**32", "2**62", "2**63", "-2**63",
       "2**64", "-2**64 - 1", "10**30"]
SMALL = ["0", "1", "-1", "2", "-2", "3", "5", "-5", "7", "-8", "100", "-100"]
IDX = SMALL + BIG + ["None", "True", "1.5", "'a'", "S.Idx(1)", "S.Idx(-1)", "S.Idx(2**70)", "S.IntSub(1)"]
CIDX = SMALL + ["sys.maxsize", "-sys.maxsize - 1", "sys.maxsize - 1", "2**31", "-2**31", "2**62", "-2**62"]
LISTS = ["[]", "[1]", "[1, 2, 3]", "[1, 2, 3, 4, 5, 6, 7, 8]", "S.ListSub([1, 2])"]
TUPLES = ["()", "(1,)", "(1, 2, 3)", "(1, 2, 3, 4, 5, 6, 7, 8)", "S.TupleSub((1, 2))"]
STRS = ["''", "'a'", "'abc'", "'ab\\xe9d'", "'a\\u4e2db'", "'\\U0001f600xyz'", "'abcabcabc'", "S.StrSub('ab')"]
BYTESV = ["b''", "b'a'", "b'abc'", "b'\\xff\\x00abc'", "b'abcabcabc'", "S.BytesSub(b'ab')"]
ANYOBJ = LISTS + TUPLES + STRS + BYTESV + ["None", "5", "{}", "{1: 2}", "bytearray(b'abc')", "range(5)", "memoryview(b'abc')"]
PREFIX_S = ["''", "'a'", "'abc'", "('a', 'b')", "()", "('a', 1)", "None", "b'a'", "'\\xe9'"]
PREFIX_B = ["b''", "b'a'", "b'abc'", "(b'a', b'b')", "()", "(b'a', 1)", "None", "'a'", "bytearray(b'a')"]
INTS = SMALL + BIG + ["-2**62", "2**30", "-2**30", "2**30 - 1", "2**15", "True", "False", "1.5", "-0.0", "float('inf')", "float('nan')",
                      "'s'", "None", "S.IntSub(7)", "S.IntSub(2**70)", "1e300", "Fraction(1, 3)", "Decimal('1.5')"]
FLOATSTR = ["'1.5'", "' 1e5 '", "'1_0.0_1'", "'1e+_5'", "'nan'", "'-inf'", "'infinity'", "'0x10'", "''", "'1' * 39", "' ' + '1' * 39",
            "'\\xa0' + '1' * 39 + '\\xa0'", "'1' * 40", "'1' * 41 + '.5'", "'1_' * 20 + '1'", "'\\u0661\\u0662'", "'1\\x00'", "'\\u2003' + '1.5'",
            "'1' * 400", "'.' * 50", "'e' * 45", "'1e' + '9' * 40"]
FLOATB = ["b'1.5'", "b' 1e5 '", "b'1_0.0_1'", "b'1e+_5'", "b'nan'", "b'1' * 39", "b' ' + b'1' * 39", "b'1' * 40", "b'1' * 41", "b'1_' * 20 + b'1'",
          "b'1\\x00'", "b''", "b'1' * 400", "bytearray(b'1.5')", "bytearray(b'1' * 39)"]

ARGSPEC = {
    "k_list_get": [LISTS + ["None", "(1,)"], IDX], "k_list_get_c": [LISTS, CIDX], "k_tuple_get": [TUPLES + ["None"], IDX],
    "k_tuple_get_c": [TUPLES, CIDX], "k_str_get": [STRS + ["None"], IDX], "k_str_get_c": [STRS, CIDX],
    "k_bytes_get": [BYTESV, IDX], "k_bytes_get_c": [BYTESV, CIDX], "k_obj_get": [ANYOBJ, IDX], "k_obj_get_c": [ANYOBJ, CIDX],
    "k_list_slice": [LISTS, IDX, IDX], "k_list_slice_c": [LISTS, CIDX, CIDX], "k_tuple_slice": [TUPLES, IDX, IDX],
    "k_tuple_slice_c": [TUPLES, CIDX, CIDX], "k_str_slice": [STRS, IDX, IDX], "k_str_slice_c": [STRS, CIDX, CIDX],
    "k_bytes_slice": [BYTESV, IDX, IDX], "k_bytes_slice_c": [BYTESV, CIDX, CIDX], "k_ba_slice_c": [["bytearray(b'abcdef')", "bytearray()"], CIDX, CIDX],
    "k_list_set_c": [LISTS, CIDX, ["0"]], "k_list_del": [LISTS, IDX], "k_list_pop": [LISTS, IDX], "k_list_pop_c": [LISTS, CIDX],
    "k_list_insert_c": [LISTS, CIDX, ["9"]],
    "k_str_startswith": [STRS, PREFIX_S, IDX, IDX], "k_str_endswith": [STRS, PREFIX_S, IDX, IDX],
    "k_bytes_startswith": [BYTESV, PREFIX_B, IDX, IDX], "k_bytes_endswith": [BYTESV, PREFIX_B, IDX, IDX],
    "k_bytes_startswith1": [BYTESV, PREFIX_B, IDX], "k_str_find": [STRS, PREFIX_S[:3] + ["None"], IDX, IDX],
    "k_str_count": [STRS, PREFIX_S[:3], IDX, IDX], "k_str_mul": [STRS[:4], SMALL + ["None", "'a'", "2**63", "-2**63"]],
    "k_bytes_decode_slice": [BYTESV[:5], CIDX, CIDX], "k_bytes_decode_slice2": [BYTESV[:5], CIDX],
    "k_float": [FLOATSTR + FLOATB + INTS], "k_float_s": [FLOATSTR], "k_float_b": [[b for b in FLOATB if "bytearray" not in b]],
    "k_int": [INTS + FLOATSTR[:8]], "k_ord": [STRS + BYTESV + ["5", "None"]], "k_chr": [INTS + ["1114111", "1114112", "55296"]],
    "k_chr_c": [SMALL + ["1114111", "1114112", "2**31", "-2**31", "2**62", "55296", "65"]],
    "k_lshift": [INTS[:30], SMALL + ["63", "64", "2**31", "2**62", "2**63", "sys.maxsize", "None"]], "k_lshift7": [INTS], "k_lshift62": [INTS],
    "k_rshift": [INTS[:30], SMALL + ["63", "64", "2**31", "2**63", "sys.maxsize", "None"]], "k_rshift3": [INTS],
    "k_add1": [INTS], "k_sub1": [INTS], "k_mul3": [INTS], "k_mulbig": [INTS], "k_neg": [INTS], "k_abs": [INTS], "k_floordiv7": [INTS],
    "k_mod7": [INTS], "k_divmodm1": [INTS], "k_and": [INTS], "k_fmt_d": [INTS], "k_fmt_c": [SMALL + ["sys.maxsize", "-sys.maxsize - 1", "2**62"]],
    "k_pct": [INTS], "k_join": [["[]", "['a']", "['a', 'b']", "['a', 1]", "None", "'abc'", "('x', '\\u4e2d')", "[b'a']", "['a', None]"]],
    "k_tuple_unpack3": [TUPLES + LISTS + STRS[:4] + ["None", "5", "iter([1, 2, 3])", "iter([1, 2])", "{1, 2, 3}", "range(3)", "range(4)"]],
    "k_star_unpack": [TUPLES + LISTS + STRS[:4] + ["None", "iter([1])", "iter([1, 2, 3, 4])", "range(2)"]],
    "k_dict_get": [["{}", "{1: 2}", "{'a': 1}", "S.DictSub({1: 2})"], ["1", "'a'", "None", "[]", "(1, [])", "S.Unhashable()"]],
    "k_set_ops": [["set()", "{1, 2}", "{'a'}"], ["1", "'a'", "None", "[]", "S.Unhashable()", "(1, 2)"]],
    "k_enumerate": [LISTS[:4] + ["'ab'", "None", "5"], SMALL[:6] + BIG[:4] + ["None", "'a'", "1.5"]],
    "k_range_c": [["0", "1", "-1", "5", "2**31 - 1", "2**31 - 3", "-2**31", "-2**31 + 2"], ["0", "1", "-1", "5", "2**31 - 1", "-2**31", "2**31 - 2"],
                  ["1", "-1", "2", "-2", "3", "0", "2**31 - 1", "-2**31", "7"]],
    "k_reversed_range": [["0", "1", "-3", "5", "2**63", "-2**63", "sys.maxsize"], ["0", "4", "-1", "7", "2**63 + 5", "-2**63 - 3", "sys.maxsize"],
                         ["1", "-1", "2", "-2", "3", "0", "2**62", "-2**63"]],
    "k_unicode_in": [["'a'", "'\\xe9'", "'\\u4e2d'", "''", "'ab'", "1", "None", "b'a'"], STRS], "k_ucs4_in": [["'a'", "'\\xe9'", "'\\u4e2d'", "'\\U0001f600'", "'z'"]],
    "k_bytes_in": [["97", "255", "256", "-1", "b'a'", "b''", "'a'", "None", "2**63"], BYTESV], "k_isinstance": [["1", "'a'", "None", "True", "1.5", "S.IntSub(1)"]],
    "k_sorted": [["[]", "[3, 1, 2]", "[1, 'a']", "None", "'cba'", "(2, 1)", "{3, 1}", "[[2], [1]]", "[float('nan'), 1.0]"]],
    "k_minmax": [["1", "1.0", "True", "'a'", "None", "float('nan')", "-0.0"], ["1", "0.0", "False", "'b'", "2**70"], ["0", "1", "1.0", "True", "-0.0"]],
    "k_sum": [["[]", "[1, 2]", "[1.5, 2]", "[2**62, 2**62]", "[2**63, 1]", "['a']", "None", "[True, True]", "[[1], [2]]", "range(2**40, 2**40 + 3)"]],
    "k_str_idx_cmp": [STRS, CIDX], "k_bytearray_append": [["0", "255", "256", "-1", "'a'", "None", "2**63", "True", "1.5"]],
    "k_bytes_mul": [BYTESV[:4], SMALL],
}


@st.composite
def kernel_calls(draw, n):
    names = sorted(ARGSPEC)
    out = []
    for _ in range(n):
        k = draw(st.sampled_from(names))
        args = [draw(st.sampled_from(choices)) for choices in ARGSPEC[k]]
        out.append("M.%s(%s)" % (k, ", ".join(args)))
    return out


# ---------------------------------------------------------------- memoryview / buffer kernels (.pyx; numpy is the oracle)
MV_SRC = '''
def mv_get1(int[:] m, Py_ssize_t i): return m[i]
def mv_get1c(int[::1] m, Py_ssize_t i): return m[i]
def mv_get2(int[:, :] m, Py_ssize_t i, Py_ssize_t j): return m[i, j]
def mv_get2o(int[:, :] m, i, j): return m[i, j]
def mv_set1(int[:] m, Py_ssize_t i):
    m[i] = 77
    return 77
def mv_set2(int[:, :] m, Py_ssize_t i, Py_ssize_t j):
    m[i, j] = 77
    return 77
def mv_row(int[:, :] m, Py_ssize_t i): return list(m[i])
def mv_slice(int[:] m, Py_ssize_t a, Py_ssize_t b): return list(m[a:b])
def mv_slice3(int[:] m, Py_ssize_t a, Py_ssize_t b, Py_ssize_t c): return list(m[a:b:c])
def mv_slice_obj(int[:] m, a, b, c): return list((<object>m)[a:b:c])
def buf_get1(object[int, ndim=1] b, Py_ssize_t i): return b[i]
def buf_get2(object[int, ndim=2] b, Py_ssize_t i, Py_ssize_t j): return b[i, j]
def buf_set1(object[int, ndim=1] b, Py_ssize_t i):
    b[i] = 77
    return 77
def mv_char(const unsigned char[:] m, Py_ssize_t i): return m[i]
'''
MV_SETUP = '''
import numpy as np

def _arr(spec):
    kind, n = spec
    if kind == "c1":
        return np.arange(10, 10 + n, dtype=np.intc)
    if kind == "s1":
        return np.arange(10, 10 + 2 * n, dtype=np.intc)[::2]
    if kind == "r1":
        return np.arange(10, 10 + n, dtype=np.intc)[::-1]
    if kind == "c2":
        return np.arange(20, 20 + n * 3, dtype=np.intc).reshape(n, 3)
    if kind == "f2":
        return np.asfortranarray(np.arange(20, 20 + n * 3, dtype=np.intc).reshape(n, 3))
    if kind == "t2":
        return np.arange(20, 20 + n * 3, dtype=np.intc).reshape(3, n).T
    if kind == "u1":
        return np.arange(n, dtype=np.uint8)

def _ref(name, a, idx):
    if name in ("mv_get1", "mv_get1c", "buf_get1", "mv_char"):
        return int(a[idx[0]])
    if name in ("mv_get2", "mv_get2o", "buf_get2"):
        return int(a[idx[0], idx[1]])
    if name in ("mv_set1", "buf_set1"):
        a[idx[0]] = 77
        return 77
    if name == "mv_set2":
        a[idx[0], idx[1]] = 77
        return 77
    if name == "mv_row":
        return [int(x) for x in a[idx[0]]]
    if name == "mv_slice":
        return [int(x) for x in a[idx[0]:idx[1]]]
    if name in ("mv_slice3", "mv_slice_obj"):
        return [int(x) for x in a[idx[0]:idx[1]:idx[2]]]

def MV(name, spec, idx):
    a, b = _arr(spec), _arr(spec)
    try:
        r = ("ok", _ref(name, a, idx), a.tolist())
    except Exception as e:
        r = ("exc", type(e).__name__)
    try:
        g = ("ok", getattr(M, name)(b, *idx), b.tolist())
    except Exception as e:
        g = ("exc", type(e).__name__)
    return ("same",) if r == g else ("diff", r, g)
'''
MV_KERNELS = {
    "mv_get1": (["c1", "s1", "r1"], 1), "mv_get1c": (["c1"], 1), "mv_get2": (["c2", "f2", "t2"], 2), "mv_get2o": (["c2", "t2"], 2),
    "mv_set1": (["c1", "s1", "r1"], 1), "mv_set2": (["c2", "f2", "t2"], 2), "mv_row": (["c2", "t2"], 1), "mv_slice": (["c1", "s1", "r1"], 2),
    "mv_slice3": (["c1", "s1", "r1"], 3), "mv_slice_obj": (["c1", "r1"], 3), "buf_get1": (["c1", "s1", "r1"], 1),
    "buf_get2": (["c2", "f2", "t2"], 2), "buf_set1": (["c1", "s1"], 1), "mv_char": (["u1"], 1),
}
MV_IDX = [0, 1, -1, 2, -2, 3, -3, 4, -4, 5, -5, 6, -7, 8, -9, 100, -100, 2**31 - 1, -2**31, 2**62, -2**62, 2**63 - 1, -2**63]


@st.composite
def mv_calls(draw, n):
    out = []
    names = sorted(MV_KERNELS)
    for _ in range(n):
        k = draw(st.sampled_from(names))
        kinds, arity = MV_KERNELS[k]
        spec = (draw(st.sampled_from(kinds)), draw(st.integers(0, 4)))
        idx = [draw(st.sampled_from(MV_IDX)) for _ in range(arity)]
        if k in ("mv_slice3", "mv_slice_obj") and idx[2] == 0:
            idx[2] = 1 if k == "mv_slice3" else 0
        if k == "mv_slice3" and abs(idx[2]) > 2**31:
            idx[2] = 2
        out.append("MV(%r, %r, %r)" % (k, spec, tuple(idx)))
    return out


def _draw_chunked(strategy_of, n, chunk, seed, *parts):
    """n calls drawn in chunks (one Hypothesis example cannot hold more than ~1500 calls); the first chunk uses the
    plain seed parts so that the quick tier (one chunk) draws what it always drew"""
    out = []
    k = 0
    while len(out) < n:
        m = min(chunk, n - len(out))
        got = hyp.draw_many(strategy_of(m), 2, seed, *(parts if k == 0 else parts + (k,)))
        if len(got) < 2:            # example too large for Hypothesis: halve the chunk
            if chunk <= 50:
                raise RuntimeError("cannot draw calls")
            chunk //= 2
            k += 1
            continue
        out += got[1]
        k += 1
    return out


def _mv_shard(arg):
    seed, shard, ncalls = arg
    tree.activate_view()
    part = harness.Part()
    outdir = os.path.join(tree.workdir(), "c36", "mv%d" % shard)
    name = "c36mv_%d" % shard
    calls = _draw_chunked(mv_calls, ncalls, 900, seed, "c36mv", shard)
    try:
        so = cybuild.build(MV_SRC, name, os.path.join(outdir, name), ext=".pyx", sanitize=True)
    except (cybuild.CythonError, cybuild.CCError) as e:
        part.violation("build:mv", {"kind": "mv", "exprs": calls[:2]}, "memoryview kernel module does not build: %s" % str(e)[-800:])
        return part
    _, got = runner.run_cases("so", so, name, [{"expr": c} for c in calls], env=cybuild.san_env(), setup=MV_SETUP, timeout=900)
    for c, g in zip(calls, got):
        shape = c.split("'")[1]
        part.case(["mv", c], True, ["mvkernel:" + shape, "mvoutcome:" + g[0]], sample={"kind": "memoryview", "call": c, "outcome": diffmod.json_short(g, 200)})
        if g[0] == "crash":
            bucket, in_mod = san_class(g, name)
            if in_mod:
                part.violation(bucket + ":" + shape, {"kind": "mv", "exprs": [c]}, "%s under ASan/UBSan: %s" % (c, g[2][-1500:]))
        elif g[0] == "ok" and g[1][1][0] != ["str", "'same'"]:
            # numpy raises IndexError / returns x, compiled differs: out-of-range access not rejected (or wrong element)
            part.violation("mvdiff:" + shape, {"kind": "mv", "exprs": [c]}, "%s: numpy vs compiled: %s" % (c, diffmod.json_short(g, 400)))
    return part


SAN_RE = re.compile(r"(ERROR: AddressSanitizer: [\w-]+|runtime error: [^\n]{0,120}|ERROR: UndefinedBehaviorSanitizer[^\n]{0,80}|"
                    r"AddressSanitizer: (?:SEGV|FPE|BUS|ILL)[^\n]{0,60})")


def san_class(outcome, modname):
    """-> (bucket, in_module) for a crash outcome."""
    tail = outcome[2] if len(outcome) > 2 else ""
    m = SAN_RE.search(tail)
    what = m.group(1) if m else "signal %s" % outcome[1]
    what = re.sub(r"0x[0-9a-f]+", "0x", what)
    what = re.sub(r"\d+", "N", what)
    funcs = re.findall(r"#\d+ 0x[0-9a-f]+ in (\w+)[^\n]*" + re.escape(modname), tail)
    in_mod = bool(funcs) or (modname in tail) or not m       # plain signals while executing module code count
    fn = funcs[0] if funcs else "?"
    return "san:%s@%s" % (what[:90], fn), in_mod


def _expr_shape(expr):
    m = re.match(r"M\.(\w+)\(", expr)
    return m.group(1) if m else "?"


def _kernel_shard(arg):
    seed, shard, ncalls = arg
    tree.activate_view()
    part = harness.Part()
    outdir = os.path.join(tree.workdir(), "c36", "k%d" % shard)
    name = "c36k_%d" % shard
    calls = _draw_chunked(kernel_calls, ncalls, 1200, seed, "c36k", shard)
    # deterministic boundary sweep first: every kernel with its first few values on each axis
    items = [{"src": KERNEL_SRC, "cases": [{"expr": c} for c in calls], "meta": None}]
    res = diffmod.run_batch(items, name, outdir, header=KERNEL_HEADER, sanitize=True, timeout=900)
    if res.status != "ok":
        part.violation("build:" + res.status, {"kind": "kernels", "exprs": calls[:3]}, "kernel module does not build: %s" % str(res.detail)[:800])
        return part
    for c, r, g in zip(items[0]["cases"], res.ref[0], res.got[0]):
        shape = _expr_shape(c["expr"])
        part.case(["k", c["expr"]], True, ["kernel:" + shape, "outcome:" + r[0]],
                  sample={"kind": "kernel", "call": c["expr"], "cpython": diffmod.json_short(r, 200), "sanitized": diffmod.json_short(g, 200)})
        if g[0] == "crash":
            bucket, in_mod = san_class(g, name)
            if in_mod:
                part.violation(bucket + ":" + shape, {"kind": "kernels", "exprs": [c["expr"]]},
                               "%s under ASan/UBSan: %s ... CPython gives %s" % (c["expr"], g[2][-1500:], diffmod.json_short(r, 200)))
            else:
                part.count("reports_outside_module")
        elif r[0] == "crash":
            part.count("reference_crash")
        else:
            cls = diffmod.compare(r, g, "exctype")
            if cls is not None and not cls.startswith("excmsg"):
                # behavioural divergence (not a memory error): the statement's last sentence - operations CPython
                # rejects must raise - is judged here only for "CPython raises, compiled returns a value"
                if cls.startswith("exc->ok"):
                    part.violation("noraise:%s:%s" % (shape, cls), {"kind": "kernels", "exprs": [c["expr"]]},
                                   "%s: CPython rejects (%s) but compiled code returns %s" % (c["expr"], diffmod.json_short(r, 200), diffmod.json_short(g, 200)))
                else:
                    part.count("behaviour_diff_not_judged_here")
                    part.classes["diff:%s:%s" % (shape, cls[:40])] += 1
    return part


def _prog_shard(arg):
    seed, shard, K = arg
    tree.activate_view()
    part = harness.Part()
    outdir = os.path.join(tree.workdir(), "c36", "p%d" % shard)
    items = pyprog.draw_items(K, seed, ("c36p", shard), "p%d" % shard, max_depth=3)
    name = "c36p_%d" % shard
    for sub, res in diffmod.run_batch_isolating(items, name, outdir, header=pyprog.HEADER, sanitize=True, timeout=900):
        if res.status != "ok":
            part.count("build_" + res.status, len(sub))
            continue
        for it, refs, gots in zip(sub, res.ref, res.got):
            for c, r, g in zip(it["cases"], refs, gots):
                part.case(["p", it["src"], c["expr"]], True, ["prog", "outcome:" + r[0]],
                          sample={"kind": "program", "src": it["src"][:800], "call": c["expr"]})
                if g[0] == "crash":
                    bucket, in_mod = san_class(g, name)
                    if in_mod:
                        part.violation(bucket + ":prog", {"kind": "prog", "header": pyprog.HEADER, "src": it["src"], "exprs": [c["expr"]]},
                                       "%s under ASan/UBSan: %s" % (c["expr"], g[2][-1500:]))
                    else:
                        part.count("reports_outside_module")
    return part


def run(ctx):
    nk = 2 if ctx.quick else 16
    ncalls = 1200 if ctx.quick else 6000
    npr = 2 if ctx.quick else 24
    ctx.pmap(_kernel_shard, [(ctx.seed, s, ncalls) for s in range(nk)])
    ctx.pmap(_prog_shard, [(ctx.seed, s, 12) for s in range(npr)])
    ctx.pmap(_mv_shard, [(ctx.seed, s, 900 if ctx.quick else 5000) for s in range(1 if ctx.quick else 4)])
    ctx.rule = ("(a) a table of %d builtin-sequence/str/bytes/int/loop kernels (typed and untyped receivers, object and Py_ssize_t "
                "indices) called with Hypothesis-chosen argument tuples from boundary pools (0, +-1, +-2**31, +-2**62, +-sys.maxsize, "
                "2**63.., None, wrong types, subclasses, 39/40/41-digit numeric strings); (b) C01's generated pure-Python programs; (c) typed-memoryview / legacy-buffer element and slice kernels (.pyx) over contiguous, strided, reversed, Fortran and transposed numpy arrays with indices from the same boundary pool, numpy as oracle; all "
                "compiled with gcc -O1 -fsanitize=address,undefined and run with the sanitizer runtimes preloaded. Violation = sanitizer "
                "report/signal with a frame in the module, or CPython raises but compiled code returns a value. non-trivial = every executed "
                "call (all run sanitizer-instrumented fast paths); distinct by (kernel, args) / (source, call)" % len(ARGSPEC))
    ctx.assumptions = ["interpreter not instrumented: only reports with a frame inside the generated module count",
                       "C-typed (Py_ssize_t/int/long) parameters only receive in-range values"]


def replay(ctx, case):
    tree.activate_view()
    outdir = os.path.join(ctx.work, "c36replay")
    if case["kind"] == "mv":
        try:
            so = cybuild.build(MV_SRC, "c36r", os.path.join(outdir, "mv"), ext=".pyx", sanitize=True)
        except (cybuild.CythonError, cybuild.CCError) as e:
            return True, "build: %s" % str(e)[-300:]
        _, got = runner.run_cases("so", so, "c36r", [{"expr": e} for e in case["exprs"]], env=cybuild.san_env(), setup=MV_SETUP, timeout=900)
        for e, g in zip(case["exprs"], got):
            if g[0] == "crash":
                return True, "%s: %s" % (e, san_class(g, "c36r")[0])
            if g[0] == "ok" and g[1][1][0] != ["str", "'same'"]:
                return True, "%s: %s" % (e, diffmod.json_short(g, 300))
        return False, "no report"
    if case["kind"] == "kernels":
        items = [{"src": KERNEL_SRC, "cases": [{"expr": e} for e in case["exprs"]]}]
        header = KERNEL_HEADER
    else:
        items = [{"src": case["src"], "cases": [{"expr": e} for e in case["exprs"]]}]
        header = case["header"]
    res = diffmod.run_batch(items, "c36r", outdir, header=header, sanitize=True, timeout=900)
    if res.status != "ok":
        return True, "build %s: %s" % (res.status, str(res.detail)[:300])
    for e, r, g in zip(case["exprs"], res.ref[0], res.got[0]):
        if g[0] == "crash":
            b, in_mod = san_class(g, "c36r")
            if in_mod:
                return True, "%s: %s" % (e, b)
        elif r[0] == "exc" and g[0] == "ok":
            return True, "%s: CPython raises %s, compiled returns %s" % (e, r[1], diffmod.json_short(g, 200))
    return False, "no sanitizer report"
