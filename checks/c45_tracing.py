"""C45 - profiling and tracing events are balanced and well nested (DESIGN §4 C45, engines E2 + E4).

Generated call trees (vlib/gen/calltree.py) are compiled twice: with profile=True (events observed through
sys.setprofile) and with linetrace=True + -DCYTHON_TRACE=1 (events observed through sys.settrace); the same
source runs under CPython with the same recorders.  Verdicts:
  (i)   invariant: the call/return events of the module's functions form a well-nested sequence (every call closed
        exactly once by a return of the same function, nothing left open, nothing closed twice);
  (ii)  differential: the call/return skeleton equals CPython's for the same call;
  (iii) line events name only lines of the reporting function (inside its def..end span, not inside a nested
        function, and a line that holds one of its statements).
"""
import ast
import json
import os

from vlib import cybuild, harness, runner, tree
from vlib.gen import calltree

PID = "C45"
LEVEL = "exploration"
META = {
    "technique": "property-based differential + invariant testing: generated call trees compiled with profile=True and with linetrace=True/-DCYTHON_TRACE=1, run under sys.setprofile / sys.settrace recorders, compared with a nesting automaton and with CPython's event skeleton",
    "level_text": "Exploration: hundreds of generated call trees per run (returns, raises caught at generated levels or escaping, try/finally / with / loop early exits, recursion, methods, closures, argument-count errors, generators exhausted / abandoned / closed / thrown into) are compiled from the working tree in both instrumentation modes; for each call the recorded event stream must be well nested, its call/return skeleton must equal the one CPython produces for the same source, and every line event must name a statement line of the reporting function. Sampling; no proof.",
    "level_note": "Python 3.12: the legacy (frame based) tracing branch of Profile.c is exercised, not the sys.monitoring branch (3.13+). CYTHON_TRACE_NOGIL / nogil functions are not generated. CPython 3.12's own event stream is the reference for (ii) and is itself checked against (i) and (iii). c_call/c_return events are ignored on both sides.",
}
K = 12


def module_source(trees):
    return calltree.HEADER + "\n\n".join(t["src"] for t in trees) + "\n"


def line_table(src):
    """function name -> (first line, last line, set of statement lines of that function [nested bodies excluded])."""
    out = {}
    mod = ast.parse(src)

    def own_lines(fn):
        lines = set()
        todo = list(fn.body)
        while todo:
            n = todo.pop()
            if isinstance(n, ast.stmt):
                lines.add(n.lineno)
            if isinstance(n, (ast.FunctionDef, ast.AsyncFunctionDef, ast.ClassDef, ast.Lambda)):
                continue
            for c in ast.iter_child_nodes(n):
                if isinstance(c, (ast.stmt, ast.ExceptHandler)):
                    if isinstance(c, ast.ExceptHandler):
                        lines.add(c.lineno)
                    todo.append(c)
        return lines

    for n in ast.walk(mod):
        if isinstance(n, ast.FunctionDef):
            out[n.name] = (n.lineno, n.end_lineno, own_lines(n) | {n.lineno})
    return out


def nesting_error(events):
    """None or (kind, function name) for the first violation of the call/return discipline."""
    stack = []
    for ev, name, line in events:
        if ev == "call":
            stack.append(name)
        elif ev == "return":
            if not stack:
                return "return-without-call", name
            if stack[-1] != name:
                return ("return-of-outer-frame" if name in stack else "return-without-call"), name
            stack.pop()
    if stack:
        return "call-never-closed", stack[-1]
    return None


def skeleton(events):
    return [[e, n] for e, n, l in events if e in ("call", "return")]


def line_errors(events, table):
    out = []
    for ev, name, line in events:
        if ev != "line" or name not in table:
            continue
        first, last, stmts = table[name]
        if not (first <= line <= last):
            out.append(("line-outside-function", name, line))
        elif line not in stmts:
            out.append(("line-not-a-statement-of-function", name, line))
    return out


def decode(outcome):
    if outcome[0] != "ok" or outcome[1][0] != "str":
        return None
    return json.loads(ast.literal_eval(outcome[1][1]))


def nontrivial(ref_trace_events, kinds):
    """>= 1 exception crossing >= 2 frames, or a generator exit (GeneratorExit/throw seen inside a generator)."""
    run = []
    for ev, name, line in ref_trace_events:
        if ev == "exception":
            if kinds.get(name) in ("gen", "gentry"):
                pass
            if name not in run:
                run.append(name)
            if len(run) >= 2:
                return True
        elif ev in ("line", "call"):
            run = []
    return False


BUILDS = (("profile", {"profile": True}, None, ("profile",)),
          ("trace", {"linetrace": True}, ["CYTHON_TRACE=1"], ("trace", "selective", "off")))


def run_module(trees, name, outdir, modes=("profile", "trace", "selective")):
    """Returns list of per-(tree, x, mode) records: dict(tree, x, mode, ref, got) (decoded or None)."""
    src = module_source(trees)
    cases = []
    index = []
    for ti, t in enumerate(trees):
        for x in t["xs"]:
            index.append((ti, x))
    os.makedirs(outdir, exist_ok=True)
    pypath = os.path.join(outdir, name + "_ref.py")
    with open(pypath, "w") as f:
        f.write(src)
    recs = []
    results = {}
    for build, directives, defines, bmodes in BUILDS:
        want = [m for m in bmodes if m in modes or (m == "off" and set(bmodes) & set(modes))]
        if not [m for m in want if m != "off"]:
            continue
        cases = [{"expr": "REC(%r, %r, %d)" % (mode, trees[ti]["root"], x)} for mode in want for ti, x in index]
        imp_r, ref = runner.run_cases("py", pypath, name, cases, setup=calltree.SETUP)
        try:
            so = cybuild.build(src, name, os.path.join(outdir, build), ext=".py", directives=directives, defines=defines)
        except (cybuild.CythonError, cybuild.CCError) as e:
            results[build] = ("build-error", str(e)[-600:])
            continue
        imp_c, got = runner.run_cases("so", so, name, cases, setup=calltree.SETUP)
        if imp_r[0] != "ok" or imp_c[0] != "ok":
            results[build] = ("import-error", "%s / %s" % (imp_r, imp_c))
            continue
        results[build] = ("ok", None)
        keys = [(mode, ti, x) for mode in want for ti, x in index]
        plain = {}
        for (mode, ti, x), g in zip(keys, got):
            if mode == "off":
                d = decode(g)
                plain[(ti, x)] = d["outcome"] if d else None
        for (mode, ti, x), r, g in zip(keys, ref, got):
            if mode != "off":
                recs.append({"ti": ti, "x": x, "mode": mode, "ref": decode(r), "got": decode(g), "raw": g,
                             "plain": plain.get((ti, x), "n/a")})
    return src, recs, results


def judge(part, src, trees, recs, table):
    for rec in recs:
        t = trees[rec["ti"]]
        mode, x = rec["mode"], rec["x"]
        ref, got = rec["ref"], rec["got"]
        case = {"src": calltree.HEADER + t["src"] + "\n", "root": t["root"], "x": x, "mode": mode}
        if ref is None:
            part.count("reference_failed")
            continue
        if got is None:
            if rec["raw"][0] == "crash":
                part.violation("%s:crash:%s" % (mode, rec["raw"][1]), case,
                               "compiled module crashed under the %s recorder: %s" % (mode, str(rec["raw"][2])[-300:]))
            else:
                part.count("compiled_case_failed:" + str(rec["raw"][0]))
            continue
        feats = t["features"]
        part.case([t["src"], x, mode], rec["nt"], ["mode:" + mode] + ["feat:" + f for f in feats] +
                  ["outcome:" + ref["outcome"][0]],
                  sample={"root": t["root"], "x": x, "mode": mode, "features": feats, "cpython_events": len(ref["events"]),
                          "compiled_events": len(got["events"]), "cpython_skeleton_head": skeleton(ref["events"])[:8],
                          "compiled_skeleton_head": skeleton(got["events"])[:8]})
        if ref["outcome"] != got["outcome"]:
            if rec.get("plain") == ref["outcome"]:
                # without a recorder the compiled call behaves like CPython: the instrumentation changed the outcome
                part.violation("%s:outcome-changed-by-tracing:%s" % (mode, got["outcome"][1][:40]), case,
                               "%s(%d): CPython %s (with and without recorder), compiled module without recorder %s, but under the "
                               "%s recorder %s; compiled events: %s" % (t["root"], x, ref["outcome"], rec["plain"], mode, got["outcome"],
                                                                         json.dumps(got["events"])[:500]))
            else:
                part.count("outcome_differs_not_judged")       # a C01-type difference, not an event property
            continue
        # the reference itself must satisfy the invariants, otherwise the generator/recorder is wrong
        if nesting_error(ref["events"]) or line_errors(ref["events"], table):
            part.count("reference_violates_invariant")
            continue
        err = nesting_error(got["events"])
        if err:
            kind, fname = err
            part.violation("%s:nesting:%s:%s" % (mode, kind, t["kinds"].get(fname, "?")), case,
                           "%s(%d) under %s: %s for %s (%s function); compiled events %s" % (
                               t["root"], x, mode, kind, fname, t["kinds"].get(fname, "?"), json.dumps(skeleton(got["events"]))[:600]))
            continue
        sr, sg = skeleton(ref["events"]), skeleton(got["events"])
        if sr != sg:
            i = next((i for i, (a, b) in enumerate(zip(sr, sg)) if a != b), min(len(sr), len(sg)))
            a = sr[i] if i < len(sr) else ["<end>", "-"]
            b = sg[i] if i < len(sg) else ["<end>", "-"]
            fk = t["kinds"].get(b[1] if b[1] != "-" else a[1], t["kinds"].get(a[1], "?"))
            part.violation("%s:skeleton:%s-vs-%s:%s" % (mode, a[0], b[0], fk), case,
                           "%s(%d) under %s: call/return skeleton differs from CPython at event %d: CPython %s, compiled %s; "
                           "CPython: %s; compiled: %s" % (t["root"], x, mode, i, a, b, json.dumps(sr)[:400], json.dumps(sg)[:400]))
            continue
        for kind, fname, line in line_errors(got["events"], table)[:1]:
            srcline = src.split("\n")[line - 1].strip() if 0 < line <= len(src.split("\n")) else "?"
            part.violation("%s:%s:%s" % (mode, kind, t["kinds"].get(fname, "?")), case,
                           "%s(%d) under %s: line event for %s names line %d (%r) which is not a statement line of that function" % (
                               t["root"], x, mode, fname, line, srcline))


def _shard(arg):
    seed, shard, nmods = arg
    tree.activate_view()
    part = harness.Part()
    for m in range(nmods):
        trees = calltree.draw_trees(K, seed, ("c45", shard, m), "%d" % (shard * 50 + m + 1))
        name = "c45m_%d_%d" % (shard, m)
        outdir = os.path.join(tree.workdir(), "c45", name)
        src, recs, results = run_module(trees, name, outdir)
        for mode, (st, detail) in sorted(results.items()):
            if st != "ok":
                part.count("module_%s_%s" % (mode, st))
                part.violation("%s:%s" % (mode, st), {"src": src, "root": trees[0]["root"], "x": 0, "mode": mode},
                               "module does not build/import with %s instrumentation: %s" % (mode, detail))
        table = line_table(src)
        # non-triviality comes from CPython's trace-mode events of the same (tree, x)
        nts = {}
        for rec in recs:
            if rec["mode"] in ("trace", "selective") and rec["ref"] is not None:
                nts[(rec["ti"], rec["x"])] = nontrivial(rec["ref"]["events"], trees[rec["ti"]]["kinds"])
        for rec in recs:
            rec["nt"] = nts.get((rec["ti"], rec["x"]), False) or any(f.startswith("gen-") and f[4:] in ("first", "close", "throw", "break")
                                                                   for f in trees[rec["ti"]]["features"])
        judge(part, src, trees, recs, table)
    return part


def run(ctx):
    nmods = 1 if ctx.quick else 12
    nshards = 8 if ctx.quick else 16
    ctx.pmap(_shard, [(ctx.seed, s, nmods) for s in range(nshards)])
    ctx.rule = ("Hypothesis call trees of 3-7 functions (+ generator consumer helpers), 12 trees per module, 2-4 inputs each, every module "
                "built with profile=True and with linetrace=True/-DCYTHON_TRACE=1; one evaluation per (tree, input, mode) checking nesting, "
                "equality of the call/return skeleton with CPython and line-event ownership. non-trivial = CPython's trace shows one "
                "exception crossing >= 2 frames, or the tree abandons / closes / throws into / breaks out of a generator; distinct by "
                "(tree source, input, mode)")
    ctx.assumptions = ["CPython 3.12's sys.setprofile/sys.settrace streams are the reference skeleton",
                       "calls whose outcome differs between CPython and compiled code are not judged here (C01)"]


def replay(ctx, case):
    tree.activate_view()
    t = {"src": case["src"][len(calltree.HEADER):] if case["src"].startswith(calltree.HEADER) else case["src"],
         "root": case["root"], "xs": [case["x"]], "kinds": {}, "features": []}
    name = "c45r_" + cybuild.sha12(case["src"] + case["mode"] + str(case["x"]))
    outdir = os.path.join(ctx.work, "c45replay", name)
    src, recs, results = run_module([t], name, outdir, modes=(case["mode"],))
    st = results.get("profile" if case["mode"] == "profile" else "trace", ("missing", None))
    if st[0] != "ok":
        return True, "module does not build/import with %s instrumentation: %s" % (case["mode"], st[1])
    table = line_table(src)
    part = harness.Part()
    for rec in recs:
        rec["nt"] = False
    judge(part, src, [t], [r for r in recs if r["mode"] == case["mode"]], table)
    if part.violations:
        return True, part.violations[0][2]
    return False, "events nested, skeleton equals CPython, line events owned (%s)" % dict(part.counters)
