"""C41 - compiler directives apply exactly within their scope (DESIGN §4 C41, engines E2 + E1)."""
import codecs
import os

from hypothesis import strategies as st

from vlib import cybuild, diffmod, harness, hyp, runner, tree
from vlib.gen import directives as dg

PID = "C41"
LEVEL = "exploration"
META = {
    "technique": "model-based property testing: generated nestings of semantics-changing directives with a probe at every level checked against a lexical-scope reference model; table-based oracle for directive strings",
    "level_text": "Exploration: Hypothesis-generated .pyx modules set cdivision / cpow / overflowcheck (observable through -7//2, 2**-1 and INT_MAX+1 on C ints) and always_allow_keywords / binding / embedsignature (observable through g(x=5), the function type and __doc__) at generated levels - compile options, `# cython:` header comment (four spellings), class decorators on cdef and Python classes, function/method decorators, with-blocks nested up to depth 3 with re-overrides, decorated nested functions - plus c_string_type in options and header (observable through the type of a converted char*). A probe sits at every level, including after each inner block; the expected observable is computed by a lexical-scope model (nearest enclosing setting, else header, else options, else default). The string half calls parse_directive_value for every directive name x ~120 spellings and parse_directive_list on generated -X lists and compares with a table transcribed from the documentation/doctests: a string is either mapped to the documented value or rejected with an exception. Hundreds of modules / tens of thousands of strings per run; no proof.",
    "level_note": "Defaults are calibrated from a module without settings built from the same tree; wraparound/boundscheck/nonecheck are not probed (not observable on lists without reading outside objects); str-typed directives (language_level, ...) accept any string by design and are only checked to return the string unchanged.",
}


def _write(path, text):
    os.makedirs(os.path.dirname(path), exist_ok=True)
    with open(path, "w", encoding="utf-8", newline="") as f:
        f.write(text)


# ------------------------------------------------------------------------------------------ part A

CALIB = {"header": {}, "options": {}, "cst_header": None, "cst_options": None, "header_style": 0,
         "items": [{"kind": "func", "settings": {}, "body": [("probe",)]}]}


def calibrate(outdir):
    """observable defaults of the tree: compile a module without any setting"""
    guess = {d: False for d in dg.LOCAL}
    guess.update({"always_allow_keywords": True, "binding": True, "embedsignature": False})
    r = dg.Renderer(CALIB, guess)
    src = r.render()
    so = cybuild.build(src, "c41calib", os.path.join(outdir, "calib"), ext=".pyx")
    imp, out = runner.run_cases("so", so, "c41calib", [{"expr": c["expr"]} for c in r.cases])
    defaults = {}
    probe = out[0][1][1][0][1]          # first tuple of the list
    for idx, d in ((1, "cdivision"), (2, "cpow"), (3, "overflowcheck")):
        for val, obs in dg.OBS[d].items():
            if probe[idx] == obs:
                defaults[d] = val
    for c, o in zip(r.cases[1:], out[1:]):
        if c["kind"] == "always_allow_keywords":
            defaults[c["kind"]] = o[0] == "ok"
        elif c["kind"] == "binding":
            defaults[c["kind"]] = "cython_function" in o[1][1]
        elif c["kind"] == "embedsignature":
            defaults[c["kind"]] = o[1][1] == "True"
    if len(defaults) != 6:
        raise RuntimeError("calibration failed: %r %r" % (defaults, out))
    return defaults


def run_module(mod, name, outdir, defaults, part, record=True):
    r = dg.Renderer(mod, defaults)
    src = r.render()
    case_base = {"mod": mod, "defaults": defaults}
    try:
        so = cybuild.build(src, name, os.path.join(outdir, name), ext=".pyx", directives=r.options())
    except cybuild.CythonError as e:
        part.count("cython_rejected_modules")
        for msg in diffmod.cy_error_messages(e.errors)[:1] or [str(e)[:80]]:
            part.classes["rejected:" + msg[:90]] += 1
        return
    imp, out = runner.run_cases("so", so, name, [{"expr": c["expr"]} for c in r.cases])
    if imp[0] != "ok":
        part.violation("import-failed", case_base, "module failed to import: %s\n%s" % (diffmod.json_short(imp), src))
        return
    for c, o in zip(r.cases, out):
        kind = c["kind"]
        if kind == "local":
            got = o[1][1] if o[0] == "ok" and o[1][0] == "list" else None
            for j, pid in enumerate(c["pids"]):
                eff = r.probes[pid]["env"]
                nconf = r.conflicts(eff)
                if record:
                    part.case([src, pid], nconf >= 2, ["kind:local", "path:" + r.probes[pid]["path"], "conflicts:%d" % min(nconf, 4)],
                              sample={"module": src, "probe": pid, "expected": c["expect"][j], "got": got[j] if got and j < len(got) else o})
                if got is None or j >= len(got):
                    part.violation("local|call-failed|%s" % c["path"], case_base, "%s -> %s\n%s" % (c["expr"], diffmod.json_short(o), src))
                    break
                if got[j] != c["expect"][j]:
                    exp, g = c["expect"][j][1], got[j][1]
                    for idx, d in ((1, "cdivision"), (2, "cpow"), (3, "overflowcheck")):
                        if idx < len(g) and exp[idx] != g[idx]:
                            part.violation("local|%s|%s|chain=%s" % (d, r.probes[pid]["path"], "<".join(s for _, s in eff[d])), case_base,
                                           "probe %s (%s): directive %s effective chain %s -> expected %s, got %s\n%s" % (
                                               pid, c["expr"], d, r.chain_text(eff[d]), exp[idx], g[idx], src))
                            break
                    else:
                        part.violation("local|shape|%s" % c["path"], case_base, "probe %s: expected %s got %s\n%s" % (pid, exp, g, src))
        else:
            if record:
                part.case([src, c["expr"]], c["nconf"] >= 2, ["kind:" + kind, "path:" + c["path"], "conflicts:%d" % min(c["nconf"], 4)],
                          sample={"module": src, "expr": c["expr"], "expected": c["expect"], "got": o})
            ok = (o[:len(c["expect"])] == c["expect"]) if kind != "always_allow_keywords" else (o[0] == c["expect"][0] and (o[0] == "ok" or o[1] == "TypeError"))
            if not ok:
                part.violation("%s|%s|chain=%s" % (kind, c["path"], "<".join(x.split("=")[0] for x in c["chain"].split("<"))), case_base,
                               "%s: effective chain %s -> expected %s, got %s\n%s" % (c["expr"], c["chain"], c["expect"], diffmod.json_short(o), src))


def _shard_modules(arg):
    seed, shard, nmods, nitems, depth, defaults = arg
    tree.activate_view()
    part = harness.Part()
    outdir = os.path.join(tree.workdir(), "c41", "s%d" % shard)
    mods = hyp.draw_many(dg.modules(nitems, depth), nmods + 1, seed, "c41", shard)[1:]
    for m, mod in enumerate(mods):
        run_module(mod, "c41m_%d_%d" % (shard, m), outdir, defaults, part)
    return part


# ------------------------------------------------------------------------------------------ part B

def expected_value(Options, name, s, relaxed):
    """-> ("value", v) the only acceptable result if the call returns, or ("any",) / ("reject",)"""
    t = Options.directive_types.get(name)
    if not t:
        return ("value", None)                    # documented: None for unknown / value-less directives
    if t is bool:
        if s == "True":
            return ("value", True)
        if s == "False":
            return ("value", False)
        if relaxed and s.lower() in ("true", "yes"):
            return ("value", True)
        if relaxed and s.lower() in ("false", "no"):
            return ("value", False)
        return ("reject",)
    if t is int:
        try:
            return ("value", int(s))
        except ValueError:
            return ("reject",)
    if t is str:
        return ("value", s)
    if name == "c_string_type":
        return ("value", {"unicode": "str"}.get(s, s)) if s in ("bytes", "bytearray", "str", "unicode") else ("reject",)
    if name == "embedsignature.format":
        return ("value", s) if s in ("c", "clinic", "python") else ("reject",)
    if name == "collection_type":
        return ("value", s) if s in ("sequence", "mapping") else ("reject",)
    if name == "subinterpreters_compatible":
        return ("value", s) if s in ("no", "shared_gil", "own_gil") else ("reject",)
    if name == "c_string_encoding":
        if not s:
            return ("value", "")
        common = {"utf8": "utf8", "utf-8": "utf8", "default": "utf8", "ascii": "ascii", "us-ascii": "ascii"}.get(s.lower())
        if common:
            return ("value", common)          # documented examples: 'AsCIi' -> 'ascii', 'utF-8' -> 'utf8', 'deFAuLT' -> 'utf8'
        try:
            codec = codecs.lookup(s)
        except LookupError:
            return ("value", s)
        for canon in ("ascii", "utf8"):
            if codecs.lookup(canon) == codec or s.lower() in {"ascii": ("ascii", "us-ascii"), "utf8": ("utf8", "utf-8", "default")}[canon]:
                return ("value", canon)
        return ("value", s)
    return ("reject-or-any",)                     # dict / list / type / deferred: no string form is documented


def ref_parse_list(Options, s, relaxed, ignore_unknown):
    """reference for parse_directive_list: -> ("ok", dict) or ("reject",)"""
    defaults = Options.get_directive_defaults()
    result = {}
    for item in s.split(","):
        item = item.strip()
        if not item:
            continue
        if "=" not in item:
            return ("reject",)
        name, value = [x.strip() for x in item.split("=", 1)]
        if name not in defaults:
            found = False
            if name.endswith(".all"):
                prefix = name[:-3]
                for d in defaults:
                    if d.startswith(prefix):
                        found = True
                        e = expected_value(Options, d, value, relaxed)
                        if e[0] != "value":
                            return ("reject",)
                        result[d] = e[1]
            if not found and not ignore_unknown:
                return ("reject",)
        elif Options.directive_types.get(name) is list:
            result.setdefault(name, []).append(value)
        else:
            e = expected_value(Options, name, value, relaxed)
            if e[0] == "reject":
                return ("reject",)
            if e[0] == "reject-or-any":
                return ("any",)
            result[name] = e[1]
    return ("ok", result)


def string_class(s):
    if s in ("True", "False"):
        return "documented-bool"
    if s.strip() != s:
        return "whitespace"
    if s.lower() in ("true", "false", "yes", "no"):
        return "relaxed-bool-spelling"
    if s == "":
        return "empty"
    return "other"


def _shard_strings(arg):
    seed, shard, n = arg
    tree.activate_view()
    from Cython.Compiler import Options
    part = harness.Part()
    names = sorted(Options.directive_types)
    # (1) parse_directive_value: name x spelling grid (sharded) + generated strings
    spellings = sorted(set(dg.BOOL_SPELLINGS + dg.INT_SPELLINGS + dg.ONE_OF_EXTRA + dg.ENCODINGS +
                           ["bytes", "str", "bytearray", "unicode", "3", "3str", "2"]))
    extra = hyp.draw_many(dg.value_strings(), 60, seed, "c41v", shard)
    reject_classes = part.classes
    for i, name in enumerate(names + ["nonexisting", "", "boundscheck ", "BoundsCheck"]):
        if i % 16 != shard:
            continue
        for s in spellings + extra:
            for relaxed in (False, True):
                exp = expected_value(Options, name, s, relaxed)
                try:
                    got = ("value", Options.parse_directive_value(name, s, relaxed_bool=relaxed))
                except Exception as e:
                    got = ("reject", type(e).__name__)
                    reject_classes["reject:" + type(e).__name__] += 1
                nt = s not in ("True", "False") or exp[0] != "value"
                part.case(["v", name, s, relaxed], nt, ["strings:value", "class:" + string_class(s)],
                          sample={"call": "parse_directive_value(%r, %r, relaxed_bool=%r)" % (name, s, relaxed), "expected": repr(exp), "got": repr(got)})
                bad = None
                if got[0] == "value":
                    if exp[0] == "reject":
                        bad = "accepted-undocumented"
                    elif exp[0] == "value" and (got[1] != exp[1] or type(got[1]) is not type(exp[1])):
                        bad = "wrong-value"
                    elif exp[0] == "reject-or-any":
                        bad = "accepted-untyped"
                if bad:
                    t = Options.directive_types.get(name)
                    tname = getattr(t, "__name__", type(t).__name__)
                    part.violation("strings:value|%s|type=%s|%s%s" % (bad, tname, string_class(s), "|relaxed" if relaxed else ""),
                                   {"kind": "value", "name": name, "s": s, "relaxed": relaxed},
                                   "parse_directive_value(%r, %r, relaxed_bool=%r) returned %r; documented: %r" % (name, s, relaxed, got[1], exp))
    # (2) parse_directive_list
    lists = hyp.draw_many(dg.list_strings(names), n, seed, "c41l", shard)
    for s in lists:
        for relaxed, ign in ((False, False), (True, False), (False, True)):
            exp = ref_parse_list(Options, s, relaxed, ign)
            try:
                got = ("ok", Options.parse_directive_list(s, relaxed_bool=relaxed, ignore_unknown=ign))
            except Exception as e:
                got = ("reject", type(e).__name__)
                reject_classes["reject:" + type(e).__name__] += 1
            part.case(["l", s, relaxed, ign], True, ["strings:list", "list-outcome:" + got[0]],
                      sample={"call": "parse_directive_list(%r, relaxed_bool=%r, ignore_unknown=%r)" % (s, relaxed, ign), "expected": repr(exp)[:200], "got": repr(got)[:200]})
            bad = None
            if got[0] == "ok" and exp[0] == "reject":
                bad = "accepted-undocumented"
            elif got[0] == "ok" and exp[0] == "ok" and got[1] != exp[1]:
                bad = "wrong-value"
            if bad:
                part.violation("strings:list|%s%s%s" % (bad, "|relaxed" if relaxed else "", "|ignore_unknown" if ign else ""),
                               {"kind": "list", "s": s, "relaxed": relaxed, "ignore_unknown": ign},
                               "parse_directive_list(%r, relaxed_bool=%r, ignore_unknown=%r) returned %r; documented: %r" % (s, relaxed, ign, got[1], exp))
    return part


def run(ctx):
    outdir = os.path.join(ctx.work, "c41")
    defaults = calibrate(outdir)
    nmods = 1 if ctx.quick else 20
    nitems = 6
    ctx.pmap(_shard_modules, [(ctx.seed, s, nmods, nitems, 3, defaults) for s in range(16)])
    ctx.pmap(_shard_strings, [(ctx.seed, s, 400 if ctx.quick else 8000) for s in range(16)])
    ctx.extra["calibrated_defaults"] = defaults
    ctx.rule = ("scoping: Hypothesis .pyx modules (%d per shard x 16, %d functions/classes each; settings of cdivision/cpow/overflowcheck/"
                "always_allow_keywords/binding/embedsignature drawn for options, header comment (4 spellings), class/function/method decorators, "
                "with-blocks (depth<=3, probes before/inside/after) and decorated nested functions; c_string_type in options/header); "
                "expected observable from the lexical-scope model with defaults calibrated on a setting-free module. strings: every name in "
                "directive_types (+4 bogus names) x ~130 spellings x relaxed_bool in {False,True} through parse_directive_value, and %d generated "
                "-X lists per shard x 3 flag combinations through parse_directive_list vs the documented table (accepted value must equal the "
                "documented one, undocumented spellings must raise). non-trivial = probe under >=2 conflicting settings of the same directive / "
                "string that is not a documented spelling; distinct by (module source, probe) / (name, string, flags)" % (nmods, nitems, 400 if ctx.quick else 8000))
    ctx.assumptions = ["observable tables: cdivision True -> C truncation (-7//2 == -3), cpow True -> C integer power (2**-1 == 0), overflowcheck True -> OverflowError on INT_MAX+1 (built with -fwrapv)",
                       "directive types dict/list/type/deferred have no documented string form: parse_directive_value must not return a value for them",
                       "str-typed directives return the string unchanged"]


def replay(ctx, case):
    tree.activate_view()
    part = harness.Part()
    if case.get("kind") in ("value", "list"):
        from Cython.Compiler import Options
        if case["kind"] == "value":
            exp = expected_value(Options, case["name"], case["s"], case["relaxed"])
            try:
                got = ("value", Options.parse_directive_value(case["name"], case["s"], relaxed_bool=case["relaxed"]))
            except Exception as e:
                return False, "rejected with %s" % type(e).__name__
            bad = (exp[0] in ("reject", "reject-or-any")) or (exp[0] == "value" and (got[1] != exp[1] or type(got[1]) is not type(exp[1])))
            return bad, "returned %r; documented %r" % (got[1], exp)
        exp = ref_parse_list(Options, case["s"], case["relaxed"], case["ignore_unknown"])
        try:
            got = Options.parse_directive_list(case["s"], relaxed_bool=case["relaxed"], ignore_unknown=case["ignore_unknown"])
        except Exception as e:
            return False, "rejected with %s" % type(e).__name__
        bad = exp[0] == "reject" or (exp[0] == "ok" and got != exp[1])
        return bad, "returned %r; documented %r" % (got, exp)
    mod = case["mod"]
    # JSON round trip turns tuples into lists: the renderer only indexes, so that is fine
    run_module(mod, "c41r_" + cybuild.sha12(repr(mod))[:8], os.path.join(ctx.work, "c41replay"), case["defaults"], part, record=False)
    if part.violations:
        return True, part.violations[0][2][:1500]
    return False, "probes agree with the model"
