"""C49 - generated code is assembled in insertion-point order (DESIGN §4 C49).

Real system: Cython.Compiler.Code.CCodeWriter on top of Cython.StringIOTree.StringIOTree
(both imported from the source view, never from /repo's stale .so files).

Reference: a list-of-holes model.  A buffer is a list of items, an item is either a
written fragment (text, marker tag) or a hole owned by another buffer.  Value of a buffer
= in-order concatenation of its items, holes expanded recursively; marker list = one tag
per newline, in the same order.  Nothing of the real implementation (commit, streams,
prepended_children) exists in the model.

Part (i)  exhaustive: every history of exactly L operations (L = 6; every shorter history is
          a prefix and is observed too, because ALL live buffers are observed after EVERY
          step) over <= 3 live buffers, alphabet per live buffer i:
          write(i, s) s in {"a", "b\n", "\n", ""}, commit(i), and - while < 3 buffers are
          live - insertion_point(i) and insert(fresh writer) on i.
Part (ii) Hypothesis RuleBasedStateMachine: <= 60 steps, <= 12 buffers, fragments with 0-3
          newlines, inherited / generated last_marked_pos, raw buffer.write for newline-free
          text, new_writer() detached writers that are written to before AND after a later
          insert(), insert of a writer with its own nested insertion points, commits and
          interleaved observations.
Preconditions taken from the callers in Code.py: a writer is inserted at most once and never
into itself or one of its own descendants.
"""
import io

from vlib import hyp, harness, tree

PID = "C49"
LEVEL = "exploration"
META = {
    "engine": "vlib",
    "technique": "model-based stateful testing: exhaustive enumeration of all operation histories of length <= 6 "
                 "over <= 3 buffers plus a Hypothesis RuleBasedStateMachine (<= 60 steps, <= 12 buffers) against a "
                 "list-of-holes reference model",
    "level_text": "Exploration with an exhaustively enumerated core: every history of <= 6 operations from "
                  "{write of 4 fragments, insertion_point, insert(new writer), commit} over <= 3 live CCodeWriter/"
                  "StringIOTree buffers is executed with getvalue/copyto/allmarkers/empty of every live buffer "
                  "compared with a list-of-holes model after every step (exhaustive: true for that finite space); "
                  "longer histories (<= 60 steps, <= 12 buffers, detached writers inserted later, generated and "
                  "inherited marker positions) are sampled by a Hypothesis state machine with shrinking. Longer "
                  "histories are sampled, not proved.",
    "level_note": "Trusts the list-of-holes model in this file and io.StringIO; writes go through CCodeWriter.write / "
                  "StringIOTree.write only (putln/mark_pos formatting paths, which need a full GlobalState, and "
                  "StringIOTree.reset are not driven).",
}

FRAGS = ["a", "b\n", "\n", ""]
DESC = "src.pyx"          # stands for the source descriptor object in last_marked_pos


class _CodeConfig:
    emit_linenums = False
    emit_code_comments = False
    c_line_in_traceback = False


class _GlobalState:
    """Minimal stand-in: CCodeWriter only reads .code_config from it on the paths driven here."""
    code_config = _CodeConfig()


# --------------------------------------------------------------------------- model

class MBuf:
    __slots__ = ("items", "pos", "parent", "inserted", "created_step", "parent_wrote_after")

    def __init__(self, pos=None, parent=None, inserted=True):
        self.items = []        # ("f", text, tag) | ("h", MBuf)
        self.pos = pos         # model of last_marked_pos[:2]
        self.parent = parent
        self.inserted = inserted   # False for a detached new_writer() that was not inserted yet

    def flatten(self, out):
        for it in self.items:
            if it[0] == "f":
                out.append(it)
            else:
                it[1].flatten(out)
        return out

    def value(self):
        return "".join(it[1] for it in self.flatten([]))

    def markers(self):
        out = []
        for it in self.flatten([]):
            n = it[1].count("\n")
            if n:
                out.extend([it[2]] * n)
        return out

    def is_ancestor_or_self_of(self, other):
        while other is not None:
            if other is self:
                return True
            other = other.parent
        return False


def _tag(pos):
    return tuple(pos) if pos else (None, 0)


# --------------------------------------------------------------------------- executing a history

class Mismatch(Exception):
    def __init__(self, bucket, what, step):
        Exception.__init__(self, bucket)
        self.bucket = bucket
        self.what = what
        self.step = step


class World:
    """Real writers and model buffers side by side."""

    def __init__(self):
        from Cython.Compiler.Code import CCodeWriter
        self.CCodeWriter = CCodeWriter
        root = CCodeWriter()
        root.set_global_state(_GlobalState())
        self.real = [root]
        self.model = [MBuf()]
        self.nsteps = 0
        self.flags = set()
        self.nontrivial = False
        # NT bookkeeping: for each buffer the step of the last non-empty write into it
        self._continued = {}      # id(MBuf) of a child -> True once an ancestor got a non-empty write after the hole

    # -- operations (each returns nothing; indices are taken modulo the number of live buffers by the callers)
    def apply(self, op):
        kind = op[0]
        i = op[1]
        w, m = self.real[i], self.model[i]
        self.nsteps += 1                     # = index of this op + 1 (a Mismatch raised below includes this op)
        if kind == "w":                      # CCodeWriter.write, optional generated position
            s = op[2]
            if len(op) > 3:
                line = op[3]
                if line is None:
                    w.last_marked_pos = None
                    m.pos = None
                else:
                    w.last_marked_pos = (DESC, line, 0)
                    m.pos = (DESC, line)
            w.write(s)
            m.items.append(("f", s, _tag(m.pos)))
            self._note_write(m, s)
        elif kind == "rw":                   # raw StringIOTree.write (callers use it for newline-free text only)
            s = op[2]
            assert "\n" not in s
            w.buffer.write(s)
            m.items.append(("f", s, _tag(m.pos)))
            self._note_write(m, s)
        elif kind == "pos":
            line = op[2]
            if line is None:
                w.last_marked_pos = None
                m.pos = None
            else:
                w.last_marked_pos = (DESC, line, 0)
                m.pos = (DESC, line)
        elif kind == "ip":
            nw = w.insertion_point()
            nm = MBuf(pos=m.pos, parent=m)
            m.items.append(("h", nm))
            self._inherit(m, nm)
            self.real.append(nw)
            self.model.append(nm)
            self.flags.add("ip")
        elif kind == "insnew":               # insert(fresh writer) - the writer stays live
            nw = w.new_writer()
            w.insert(nw)
            nm = MBuf(pos=m.pos, parent=m)
            m.items.append(("h", nm))
            self._inherit(m, nm)
            self.real.append(nw)
            self.model.append(nm)
            self.flags.add("ins")
        elif kind == "nw":                   # detached writer, to be inserted later
            nw = w.new_writer()
            nm = MBuf(pos=m.pos, parent=None, inserted=False)
            self.real.append(nw)
            self.model.append(nm)
            self.flags.add("nw")
        elif kind == "ins":                  # insert detached writer j into i
            j = op[2]
            mj = self.model[j]
            assert not mj.inserted and not mj.is_ancestor_or_self_of(m)
            w.insert(self.real[j])
            mj.inserted = True
            mj.parent = m
            m.items.append(("h", mj))
            self._inherit(m, mj)
            self.flags.add("ins")
            if mj.items:
                self.flags.add("ins-nonempty")
        elif kind == "commit":
            w.buffer.commit()
            self.flags.add("commit")
        elif kind == "obs":
            self.observe(i)
        else:
            raise ValueError(op)

    def _note_write(self, m, s):
        if not s:
            return
        if self._continued.get(id(m)):
            self.nontrivial = True
        # every buffer left behind in m so far (and everything nested in it) now has an enclosing buffer that
        # continued after it
        for it in m.items:
            if it[0] == "h":
                self._mark(it[1])

    def _inherit(self, m, child):
        # a buffer created inside one that is already "behind" continued text is behind it too
        if self._continued.get(id(m)):
            self._mark(child)

    def _mark(self, b):
        self._continued[id(b)] = True
        for it in b.items:
            if it[0] == "h":
                self._mark(it[1])

    # -- observation of buffer i against the model
    def observe(self, i, excluded=()):
        w, m = self.real[i], self.model[i]
        where = "root" if m.parent is None else "sub"
        want = m.value()
        got = w.getvalue()
        if got != want:
            kind = "lost" if len(got) < len(want) else "dup" if len(got) > len(want) else "order"
            self._fail("getvalue:%s:%s" % (where, kind), "getvalue() of buffer %d = %r, model %r" % (i, got, want),
                       excluded)
        out = io.StringIO()
        w.copyto(out)
        if out.getvalue() != got:
            self._fail("copyto:%s:ne-getvalue" % where, "copyto() of buffer %d wrote %r, getvalue() %r" % (
                i, out.getvalue(), got), excluded)
        marks = [tuple(x) for x in w.buffer.allmarkers()]
        wantm = m.markers()
        if len(marks) != got.count("\n"):
            self._fail("markers:%s:len" % where, "buffer %d: %d markers for %d lines (%r)" % (
                i, len(marks), got.count("\n"), got), excluded)
        elif marks != wantm:
            self._fail("markers:%s:align" % where, "buffer %d: allmarkers() %r, model %r for text %r" % (
                i, marks, wantm, got), excluded)
        e = bool(w.buffer.empty())
        if e != (got == ""):
            self._fail("empty:%s:%s" % (where, "true-but-text" if e else "false-but-no-text"),
                       "buffer %d: empty() = %r but getvalue() = %r" % (i, e, got), excluded)

    def _fail(self, base, what, excluded):
        bucket = base
        if bucket in excluded:
            return
        raise Mismatch(bucket, what, self.nsteps)

    def observe_all(self, excluded=()):
        for i in range(len(self.real)):
            self.observe(i, excluded)


def run_history(ops, excluded=(), observe_every_step=True):
    """Execute ops; returns (world, None) or (world, Mismatch)."""
    wd = World()
    try:
        for op in ops:
            wd.apply(op)
            if observe_every_step:
                wd.observe_all(excluded)
        if not observe_every_step:
            wd.observe_all(excluded)
    except Mismatch as e:
        return wd, e
    return wd, None


# --------------------------------------------------------------------------- part (i): exhaustive

MAXBUF_EX = 3


def _alphabet(k, step):
    out = []
    for i in range(k):
        for s in FRAGS:
            out.append(["w", i, s, step + 1])
        out.append(["commit", i])
        if k < MAXBUF_EX:
            out.append(["ip", i])
            out.append(["insnew", i])
    return out


def _nbuf_after(k, op):
    return k + 1 if op[0] in ("ip", "insnew") else k


def _enumerate(prefix, k, length):
    """Yield all histories of exactly `length` ops extending prefix (k = live buffers after prefix)."""
    if len(prefix) == length:
        yield prefix
        return
    for op in _alphabet(k, len(prefix)):
        yield from _enumerate(prefix + [op], _nbuf_after(k, op), length)


def _prefixes(plen):
    out = []

    def rec(prefix, k):
        if len(prefix) == plen:
            out.append((prefix, k))
            return
        for op in _alphabet(k, len(prefix)):
            rec(prefix + [op], _nbuf_after(k, op))
    rec([], 1)
    return out


def _hist_classes(wd, ops):
    cl = ["ex:nbuf=%d" % len(wd.real)]
    for f in sorted(wd.flags):
        cl.append("ex:has-" + f)
    if wd.nontrivial:
        cl.append("ex:child-written-after-parent-continued")
    return cl


def _exhaustive_shard(arg):
    prefixes, length = arg
    tree.activate_view()
    part = harness.Part()
    found = {}
    for prefix, k in prefixes:
        for ops in _enumerate(list(prefix), k, length):
            excluded = ()
            for attempt in range(6):
                wd, mm = run_history(ops, excluded)
                if mm is None:
                    break
                cut = ops[:mm.step]
                prev = found.get(mm.bucket)
                if prev is None or len(cut) < len(prev[0]["ops"]):
                    found[mm.bucket] = ({"kind": "history", "ops": cut}, mm.what)
                part.count("exhaustive_mismatches")
                excluded = tuple(excluded) + (mm.bucket,)
            part.case(["ex", ops], wd.nontrivial, _hist_classes(wd, ops),
                      sample={"kind": "history", "ops": ops})
    for bucket, (case, what) in sorted(found.items()):
        part.violation("ex:" + bucket, case, what)
    return part


# --------------------------------------------------------------------------- part (ii): state machine

MAXBUF_SM = 12
_capture = {}


def _make_machine(excluded, part, max_steps):
    from hypothesis import strategies as st
    from hypothesis.stateful import RuleBasedStateMachine, rule, precondition, invariant

    idx = st.integers(0, MAXBUF_SM - 1)
    piece = st.sampled_from(["a", "bc", "", "\n", "x\n", "\n\n", "p\nq", "p\nq\nr\n", "\n\n\n", "{", "  "])
    nl_free = st.sampled_from(["a", "bc", "", "  ", "}"])
    line = st.one_of(st.none(), st.integers(1, 9))

    class Machine(RuleBasedStateMachine):
        def __init__(self):
            RuleBasedStateMachine.__init__(self)
            self.wd = World()
            self.ops = []
            self.done = False

        def _do(self, op):
            self.ops.append(op)
            try:
                self.wd.apply(op)
            except Mismatch as mm:        # from an "obs" op
                self._report(mm)

        def _report(self, mm):
            if mm.bucket in excluded:
                return
            _capture["ops"] = list(self.ops)
            _capture["mm"] = mm
            raise AssertionError(mm.bucket)

        def _i(self, i):
            return i % len(self.wd.real)

        @rule(i=idx, s=piece)
        def write(self, i, s):
            self._do(["w", self._i(i), s])

        @rule(i=idx, s=piece, ln=line)
        def write_at(self, i, s, ln):
            self._do(["w", self._i(i), s, ln])

        @rule(i=idx, s=nl_free)
        def raw_write(self, i, s):
            self._do(["rw", self._i(i), s])

        @rule(i=idx, ln=line)
        def set_pos(self, i, ln):
            self._do(["pos", self._i(i), ln])

        @precondition(lambda self: len(self.wd.real) < MAXBUF_SM)
        @rule(i=idx)
        def insertion_point(self, i):
            self._do(["ip", self._i(i)])

        @precondition(lambda self: len(self.wd.real) < MAXBUF_SM)
        @rule(i=idx)
        def insert_new(self, i):
            self._do(["insnew", self._i(i)])

        @precondition(lambda self: len(self.wd.real) < MAXBUF_SM)
        @rule(i=idx)
        def new_writer(self, i):
            self._do(["nw", self._i(i)])

        @precondition(lambda self: any(not m.inserted for m in self.wd.model))
        @rule(i=idx, j=idx)
        def insert_detached(self, i, j):
            cands = [n for n, m in enumerate(self.wd.model) if not m.inserted]
            j = cands[j % len(cands)]
            mj = self.wd.model[j]
            targets = [n for n, m in enumerate(self.wd.model) if not mj.is_ancestor_or_self_of(m)]
            if not targets:
                return
            self._do(["ins", targets[i % len(targets)], j])

        @rule(i=idx)
        def commit(self, i):
            self._do(["commit", self._i(i)])

        @rule(i=idx)
        def observe(self, i):
            self._do(["obs", self._i(i)])

        @invariant()
        def agrees_with_model(self):
            # cheap enough to do on every buffer after every step
            try:
                self.wd.observe_all(excluded)
            except Mismatch as mm:
                self._report(mm)

        def teardown(self):
            wd = self.wd
            cl = ["sm:len=%s" % ("0-9" if len(self.ops) < 10 else "10-29" if len(self.ops) < 30 else "30+"),
                  "sm:nbuf=%s" % ("1-3" if len(wd.real) <= 3 else "4-7" if len(wd.real) <= 7 else "8-12")]
            for f in sorted(wd.flags):
                cl.append("sm:has-" + f)
            if wd.nontrivial:
                cl.append("sm:child-written-after-parent-continued")
            if any(m.parent is not None and m.parent.parent is not None and m.items for m in wd.model):
                cl.append("sm:depth>=2-written")
            part.case(["sm", self.ops], wd.nontrivial, cl, sample={"kind": "history", "ops": self.ops[:40]})

    return Machine


def _machine_shard(arg):
    seed, shard, n, max_steps = arg
    import hypothesis
    from hypothesis import settings, Phase
    from hypothesis.stateful import run_state_machine_as_test
    tree.activate_view()
    part = harness.Part()
    excluded = set()
    for attempt in range(6):
        _capture.clear()
        Machine = _make_machine(excluded, part, max_steps)
        Machine = hypothesis.seed(hyp.derive(seed, "c49sm", shard, attempt))(Machine)
        try:
            run_state_machine_as_test(Machine, settings=settings(
                max_examples=n, stateful_step_count=max_steps, database=None, deadline=None, derandomize=False,
                phases=[Phase.generate, Phase.target, Phase.shrink], suppress_health_check=hyp.ALL_HC,
                report_multiple_bugs=False, print_blob=False))
        except AssertionError:
            if "ops" not in _capture:
                raise
            mm = _capture["mm"]
            ops = _capture["ops"]
            # re-derive from the shrunk history itself (bucket flags may have shrunk too)
            wd, mm2 = run_history(ops, tuple(excluded))
            if mm2 is not None:
                mm = mm2
                ops = ops[:mm2.step]
            part.violation("sm:" + mm.bucket, {"kind": "history", "ops": ops}, mm.what)
            excluded.add(mm.bucket)
            continue
        break
    return part


# --------------------------------------------------------------------------- entry points

def prime():
    """Load every module the shards use before forking / drawing (Hypothesis derives constants from the local modules
    in sys.modules, so the module set must be the same in every worker)."""
    tree.activate_view()
    run_history([["w", 0, "a\n", 1], ["ip", 0], ["insnew", 0], ["nw", 1], ["w", 3, "b"], ["ins", 2, 3],
                 ["commit", 0], ["rw", 1, "c"], ["pos", 0, None], ["w", 0, "\n"], ["obs", 0]])
    import hypothesis.stateful  # noqa: F401


def run(ctx):
    prime()
    length = 6
    plen = 2
    prefixes = _prefixes(plen)
    # deal prefixes round-robin into 16 shards (every pmap item is a freshly forked worker, so items should not be tiny)
    nshards = 16
    shards = [([], length) for _ in range(nshards)]
    for n, p in enumerate(prefixes):
        shards[n % nshards][0].append(p)
    ctx.pmap(_exhaustive_shard, [s for s in shards if s[0]])
    ctx.exhaustive = True
    _keep_shortest(ctx)
    ctx.extra["exhaustive_space"] = ("all histories of exactly %d operations (=> all shorter ones as prefixes, every live "
                                     "buffer observed after every step) over <= %d live buffers; alphabet per buffer: "
                                     "write of %r, commit, insertion_point, insert(new writer)" % (
                                         length, MAXBUF_EX, FRAGS))
    ctx.extra["exhaustive_histories"] = int(ctx.evaluations)

    n = 250 if ctx.quick else 6000
    ctx.pmap(_machine_shard, [(ctx.seed, i, n, 60) for i in range(16)])
    _keep_shortest(ctx)
    ctx.extra["sampled_histories"] = int(ctx.evaluations) - ctx.extra["exhaustive_histories"]
    ctx.rule = ("(i) exhaustive: every length-6 operation history over <= 3 live CCodeWriter buffers (4 write fragments, "
                "commit, insertion_point, insert(new writer)); (ii) Hypothesis RuleBasedStateMachine histories of <= 60 "
                "steps over <= 12 buffers (fragments with 0-3 newlines, generated/inherited last_marked_pos, raw "
                "buffer.write, detached new_writer() inserted later). After every step getvalue/copyto/allmarkers/"
                "empty of every live buffer are compared with a list-of-holes model. One evaluation = one history; "
                "non-trivial = some buffer left behind by insertion_point/insert received a non-empty write after an "
                "enclosing buffer had continued with a non-empty write behind it; distinct by history")
    ctx.assumptions = ["a writer is inserted at most once and never into itself or a descendant (as in Code.py)",
                       "text containing a newline is written through CCodeWriter.write (that is what keeps markers "
                       "aligned); raw StringIOTree.write is only used for newline-free text",
                       "StringIOTree.reset() (PyxCodeWriter only) is outside the statement and not driven"]


def _keep_shortest(ctx):
    """One violation per bucket: the shortest history (ties: first in shard order), so replays are minimal."""
    best = {}
    order = []
    for v in ctx.violations:
        bucket, case, what = v
        if not (isinstance(case, dict) and case.get("kind") == "history"):
            order.append(v)
            continue
        if bucket not in best:
            best[bucket] = v
            order.append(bucket)
        elif len(case["ops"]) < len(best[bucket][1]["ops"]):
            best[bucket] = v
    ctx.violations[:] = [best[x] if isinstance(x, str) else x for x in order]


def replay(ctx, case):
    prime()
    wd, mm = run_history([list(op) for op in case["ops"]])
    if mm is None:
        return False, "history of %d ops agrees with the model" % len(case["ops"])
    return True, "%s after step %d: %s" % (mm.bucket, mm.step, mm.what)
