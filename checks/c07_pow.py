"""C07 - the power operator follows the documented cpow table (DESIGN §4 C07, engine E3).

Four .pyx modules (cpow False/True x two halves of the operand-type table) with one kernel per cell
`base form x exponent form`; the result TYPE of every kernel is read back with cython.typeof and compared with the
row of docs/src/userguide/cpow_table.csv (transcribed in expected_types()), the VALUES are judged by
vlib/cintmodel.py "pow" against CPython's own ** on the same numbers.
"""
import os

from hypothesis import strategies as st

from vlib import cintmodel as cm
from vlib import cybuild, harness, hyp, ktable, runner, tree

PID = "C07"
LEVEL = "exploration"
META = {
    "technique": "typed kernel tables: a ** b kernels for C int / float / complex / object operand combinations x exponent forms (runtime signed/unsigned/double variable, literals 0..5, negative, fractional) x cpow on/off; result types via cython.typeof against the transcribed cpow table, values against CPython's ** on the same numbers",
    "level_text": "Exploration: ~300 kernels cover every row of the documented cpow table for 8 C integer base types, double and float, literal bases, Python-object operands (incl. the 2**n fast path and in-place **=) and double complex. For each kernel the compile-time result type must be in the documented set for its row; values are compared with CPython for boundary bases (0, +-1, +-2, +-3, 10, sqrt/cbrt-of-bound neighbours, type bounds), exponents -3..7, 15..65, 100, special doubles (+-0, +-inf, nan, huge, tiny, negative bases with fractional exponents) plus Hypothesis-drawn pairs. C-integer results are required exact when the exponent is non-negative and the power fits. Sampling, no proof.",
    "level_note": "Table transcribed from docs/src/userguide/cpow_table.csv (path recorded in evidence). Trusts CPython's int/float/complex ** and the platform libm pow() (CPython's float ** float calls the same function). C float (32-bit) results are compared with 1e-5 relative tolerance, C double results with 1e-15 (x ** -1 is computed as 1.0 / x), double complex with 1e-12 (C08 owns exact complex arithmetic). int ** non-negative-int typed as C double is a documented deviation and compared with float(a) ** float(b).",
}

DOC = "docs/src/userguide/cpow_table.csv"
INT_BASES_A = ["int", "unsigned int", "long", "unsigned long"]
INT_BASES_B = ["short", "unsigned char", "long long", "Py_ssize_t"]
FLOAT_TYPES = ["double", "float"]


def kind_of(form):
    """form: ("var", ctype) | ("lit", value) -> operand kind"""
    if form[0] == "lit":
        return "float" if isinstance(form[1], float) else "int"
    t = form[1]
    if t in cm.CTYPES:
        return "int"
    if t in ("double", "float"):
        return "float"
    if t == "object":
        return "obj"
    if t == "double complex":
        return "complex"
    raise ValueError(t)


def expected_types(aform, bform, cpow):
    """Row of the cpow table -> (row label, predicate over the typeof category) or None if not in the table."""
    ak, bk = kind_of(aform), kind_of(bform)
    if ak not in ("int", "float") or bk not in ("int", "float"):
        return None
    if ak == "int" and bk == "int":
        if bform[0] == "lit" and bform[1] < 0:
            return "C integer ** negative integer constant", ("double",)
        nonneg = (bform[0] == "lit" and bform[1] >= 0) or (bform[0] == "var" and not cm.CTYPES[bform[1]][1])
        if nonneg:
            return "C integer ** C integer known >= 0", ("integer",)
        return "C integer ** C integer (may be negative)", (("integer",) if cpow else ("double",))
    if ak == "float" and bk == "int":
        return "C floating point ** C integer", ("double", "float")
    if cpow:
        return "C float or integer ** C floating point", ("double", "float")
    return "C float or integer ** C floating point", ("double", "float", "soft")


def category(ty):
    if ty in cm.CTYPES:
        return "integer"
    if ty in ("double", "float"):
        return ty
    if ty == "soft double complex":
        return "soft"
    if ty.endswith("complex"):
        return "complex"
    if ty.endswith("object"):
        return "object"
    return "other:" + ty


def lit_src(v):
    if isinstance(v, float):
        return repr(v) if v >= 0 else "(%r)" % v
    return str(v) if v >= 0 else "(%d)" % v


def table(half):
    """list of (aform, bform, style) for one module half; style in {"expr", "inplace"}"""
    out = []
    ints = INT_BASES_A if half == "A" else INT_BASES_B
    bforms = [("var", "int"), ("var", "unsigned int"), ("var", "long"), ("var", "double")] + \
             [("lit", v) for v in (0, 1, 2, 3, 4, 5, -1, -2, 0.5, 2.0)]
    for T in ints:
        for bf in bforms:
            out.append((("var", T), bf, "expr"))
    if half == "A":
        for av, bt in ((2, "int"), (2, "unsigned int"), (3, "int"), (10, "unsigned int"), (-2, "int"), (2.0, "int"), (2.0, "double"),
                       (0.5, "double"), (-2.0, "double")):
            out.append((("lit", av), ("var", bt), "expr"))
    else:
        for T in FLOAT_TYPES:
            for bf in [("var", "int"), ("var", "unsigned int"), ("var", "double")] + [("lit", v) for v in (0, 2, 3, -1, -2, 0.5)]:
                out.append((("var", T), bf, "expr"))
        out += [(("var", "object"), ("var", "int"), "expr"), (("var", "int"), ("var", "object"), "expr"),
                (("lit", 2), ("var", "object"), "expr"), (("var", "object"), ("lit", 2), "expr"),
                (("var", "object"), ("lit", -1), "expr"), (("var", "object"), ("var", "object"), "expr"),
                (("var", "object"), ("var", "object"), "inplace"), (("lit", 2), ("var", "object"), "inplace"),
                (("var", "double complex"), ("var", "int"), "expr"), (("var", "double complex"), ("var", "double complex"), "expr"),
                (("var", "double complex"), ("lit", 2), "expr"), (("var", "double"), ("var", "double complex"), "expr")]
    return out


def module_source(half, cpow):
    header = "# cython: language_level=3, cpow=%s\ncimport cython\n" % cpow
    ks = []
    out = [header]
    tys = []
    for aform, bform, style in table(half):
        k = "k%d" % len(ks)
        params, decls = [], []
        if aform[0] == "var":
            params.append("%s a" % aform[1])
            decls.append("    cdef %s a = 1\n" % aform[1] if aform[1] != "object" else "    cdef object a = 1\n")
            asrc = "a"
        else:
            asrc = lit_src(aform[1])
        if bform[0] == "var":
            params.append("%s b" % bform[1])
            decls.append("    cdef %s b = 1\n" % bform[1] if bform[1] != "object" else "    cdef object b = 1\n")
            bsrc = "b"
        else:
            bsrc = lit_src(bform[1])
        if style == "inplace":
            if aform[0] == "lit":
                text = "def %s(%s):\n    r = %s\n    r **= %s\n    return r\n" % (k, ", ".join(params), asrc, bsrc)
            else:
                text = "def %s(%s):\n    a **= %s\n    return a\n" % (k, ", ".join(params), bsrc)
        else:
            text = "def %s(%s):\n    return %s ** %s\n" % (k, ", ".join(params), asrc, bsrc)
        ks.append(dict(k=k, aform=aform, bform=bform, style=style, text=text, src=header + text, cpow=cpow))
        out.append(text)
        tys.append("def _ty_%s(out):\n%s    out[%r] = cython.typeof(%s ** %s)\n" % (k, "".join(decls), k, asrc, bsrc))
    out.extend(tys)
    out.append("def TYPEOFS():\n    out = {}\n" + "".join("    _ty_%s(out)\n" % d["k"] for d in ks) + "    return out\n")
    return "".join(out), ks


INT_EXP = [-3, -2, -1, 0, 1, 2, 3, 4, 5, 6, 7, 15, 16, 30, 31, 32, 33, 62, 63, 64, 65, 100]
FLOATS = [0.0, -0.0, 1.0, -1.0, 2.0, -2.0, 0.5, -0.5, -8.0, 8.0, 2.5, -2.5, 3.0, -3.0, 0.1, 1e200, -1e200, 1e-200, 1e308, 5e-324,
          float("inf"), float("-inf"), float("nan")]
FLOAT_EXP = [-3.0, -2.0, -1.0, 0.0, -0.0, 1.0, 2.0, 3.0, 4.0, 5.0, 6.0, 0.5, -0.5, 1.0 / 3, -1.0 / 3, 2.5, 1e3, -1e3, float("inf"),
             float("-inf"), float("nan")]
OBJ_BASES = [0, 1, -1, 2, -2, 3, 10, 2 ** 70, -(2 ** 70), 0.0, -0.0, 2.0, -8.0, 0.5, ["sub", 2], True]
OBJ_EXP = [-2, -1, 0, 1, 2, 5, 29, 30, 31, 61, 62, 63, 64, 65, 100, 1000, 0.5, -0.5, 2.5, ["sub", 5], True, False]
COMPLEX = [0j, 1j, -1j, 1 + 1j, -2 + 0j, 2.5 - 1.5j, complex(0.0, -0.0), 1e10 + 1e-10j, -8 + 0j]


def int_bases(T):
    lo, hi = cm.bounds(*cm.CTYPES[T])
    vals = {0, 1, -1, 2, -2, 3, -3, 7, -7, 10, -10, 255, 256, 1290, 1291, 46340, 46341, -46341, 65535, 65536, 2097151, 2097152,
            3037000499, 3037000500, -3037000500, lo, hi, lo + 1, hi - 1}
    return sorted(v for v in vals if lo <= v <= hi)


def axis(form, role, seed, quick, tag):
    """value list (encoded) for a runtime operand"""
    t = form[1]
    if t in cm.CTYPES:
        lo, hi = cm.bounds(*cm.CTYPES[t])
        if role == "a":
            vals = int_bases(t)
            extra = hyp.draw_many(st.integers(max(lo, -60), min(hi, 60)), 13 if quick else 200, seed, "c07", tag, "a")[1:]
        else:
            vals = [v for v in INT_EXP if lo <= v <= hi]
            extra = hyp.draw_many(st.integers(max(lo, -8), min(hi, 70)), 9 if quick else 60, seed, "c07", tag, "b")[1:]
        return sorted(set(vals) | set(extra))
    if t in ("double", "float"):
        vals = list(FLOATS if role == "a" else FLOAT_EXP)
        extra = hyp.draw_many(st.floats(-50, 50, allow_nan=False), 9 if quick else 120, seed, "c07", tag, role)[1:]
        if t == "float":
            import struct
            vals = [struct.unpack("f", struct.pack("f", v))[0] if abs(v) < 3e38 or v != v or abs(v) == float("inf") else (
                float("inf") if v > 0 else float("-inf")) for v in vals + extra]
            extra = []
        return [cm.encode_num(v) for v in vals + extra]
    if t == "object":
        return [cm.encode_num(v) if not isinstance(v, list) else v for v in (OBJ_BASES if role == "a" else OBJ_EXP)]
    if t == "double complex":
        return [cm.encode_num(v) for v in COMPLEX]
    raise ValueError(t)


def build_specs(ks, typeofs, half, cpow, seed, quick, part):
    specs = []
    for d in ks:
        ty = typeofs[d["k"]]
        cat = category(ty)
        ak, bk = kind_of(d["aform"]), kind_of(d["bform"])
        cell = "%s ** %s" % (d["aform"][1] if d["aform"][0] == "var" else "lit(%r)" % d["aform"][1],
                             d["bform"][1] if d["bform"][0] == "var" else "lit(%r)" % d["bform"][1])
        label = "cell=%s|style=%s|cpow=%s|restype=%s" % (cell, d["style"], cpow, ty)
        bucket = "cell=%s|style=%s|cpow=%s|res=%s" % (cell, d["style"], cpow, cat)
        # (i) result type against the documented table
        row = expected_types(d["aform"], d["bform"], cpow) if d["style"] == "expr" else None
        if row is not None:
            rowname, allowed = row
            nt = d["bform"][0] == "lit" and (d["bform"][1] <= 0 or d["bform"][1] > 3) or d["bform"][0] == "var"
            part.case(["c07-type", half, cpow, d["k"]], bool(nt), "type-row:" + rowname,
                      sample={"kernel": d["text"], "typeof": ty, "table_row": rowname, "allowed": list(allowed), "cpow": cpow})
            if cat not in allowed:
                part.violation("result-type|row=%s|cpow=%s|got=%s" % (rowname, cpow, cat),
                               {"kind": "typeof", "src": d["src"], "k": d["k"], "aform": list(d["aform"]), "bform": list(d["bform"]),
                                "cpow": cpow, "allowed": list(allowed)},
                               "%s has compile-time type %s; %s row '%s' (cpow=%s) documents %s" % (
                                   d["text"].strip().splitlines()[-1].strip(), ty, DOC, rowname, cpow, "/".join(allowed)))
        # (ii)/(iii) values
        if cat == "integer":
            res = list(cm.type_range(ty))
        elif cat in ("double", "float", "soft", "complex", "object"):
            res = cat
        else:
            raise RuntimeError("unexpected typeof %r for %s" % (ty, d["text"]))
        params = {"akind": ak, "bkind": bk, "res": res, "cpow": cpow,
                  "consta": cm.encode_num(d["aform"][1]) if d["aform"][0] == "lit" else None,
                  "constb": cm.encode_num(d["bform"][1]) if d["bform"][0] == "lit" else None}
        axes = []
        if d["aform"][0] == "var":
            axes.append(axis(d["aform"], "a", seed, quick, cell))
        if d["bform"][0] == "var":
            axes.append(axis(d["bform"], "b", seed, quick, cell))
        specs.append({"k": d["k"], "judge": ["pow", params], "enc": "num", "inputs": {"kind": "product", "axes": axes},
                      "label": label, "bucket": bucket, "src": d["src"], "build": {"ext": ".pyx"}, "ktext": d["text"],
                      "maxnt": 10, "maxbad": 30})
    return specs


def _unit(arg):
    half, cpow, seed, quick, work = arg
    tree.activate_view()
    part = harness.Part()
    src, ks = module_source(half, cpow)
    name = "c07_%s_%s" % (half, "cpow" if cpow else "nocpow")
    so = cybuild.build(src, name, os.path.join(work, "c07", name), ext=".pyx")
    imp, outs = runner.run_cases("so", so, name, [{"expr": "M.TYPEOFS()"}])
    if imp[0] != "ok" or outs[0][0] != "ok":
        raise RuntimeError("C07 module %s unusable: %r %r" % (name, imp, outs))
    typeofs = {kv[0][1].strip("'"): kv[1][1].strip("'") for kv in outs[0][1][1]}
    specs = build_specs(ks, typeofs, half, cpow, seed, quick, part)
    ktable.run_specs(so, name, specs, part, keyprefix="c07:%s:%s" % (half, cpow))
    part.count("kernels", len(ks))
    return part


def run(ctx):
    ctx.pmap(_unit, [(h, c, ctx.seed, ctx.quick, ctx.work) for h in ("A", "B") for c in (False, True)])
    ctx.extra["distinct_nontrivial_exact"] = int(ctx.counters.get("nt_exact", 0))
    ctx.extra["cpow_table_source"] = DOC
    ctx.rule = ("kernels `a ** b`: base {8 C integer types, double, float, literal 2/3/10/-2/2.0/0.5/-2.0, object, double complex} x exponent "
                "{int / unsigned int / long / double variable, literals 0..5, -1, -2, 0.5, 2.0, object, double complex} x cpow {False, True} "
                "(+ in-place **= on objects); (i) cython.typeof of each kernel expression must be in the set the cpow table documents for its "
                "row; (ii) value/exception vs CPython ** for object, double, soft-complex and complex results; (iii) C-integer results exact "
                "for exponent >= 0 when the power fits. Inputs: product of boundary bases (0, +-1, +-2, +-3, 10, roots of the type bounds, "
                "bounds) x exponents (-3..7, 15..65, 100) / special doubles, plus Hypothesis-drawn values. non-trivial = exponent negative, "
                "zero or > 3, or base <= 0 (or nan); distinct by (kernel, a, b); distinct_nontrivial is a bounded hashed sample plus one "
                "case per typed kernel, exact count in coverage.distinct_nontrivial_exact")
    ctx.assumptions = ["cpow table transcribed from " + DOC,
                       "CPython float ** float and libm pow() agree (same function)",
                       "C float results: 1e-5 relative tolerance; C double results: 1e-15; double complex: 1e-12 (exactness is C08's)",
                       "C-integer results with negative exponent or non-fitting power are unspecified and skipped"]


def replay(ctx, case):
    if case.get("kind") == "typeof":
        tree.activate_view()
        name = "c07r_" + cybuild.sha12(case["src"])
        src = case["src"] + "\ndef TYPEOF_():\n%s    return cython.typeof(%s)\n" % (
            "".join("    cdef %s %s = 1\n" % (f[1], n) for n, f in (("a", case["aform"]), ("b", case["bform"])) if f[0] == "var"),
            case["src"].strip().splitlines()[-1].strip()[len("return "):])
        so = cybuild.build(src, name, os.path.join(ctx.work, "c07replay", name), ext=".pyx")
        imp, outs = runner.run_cases("so", so, name, [{"expr": "M.TYPEOF_()"}])
        ty = outs[0][1][1].strip("'") if outs[0][0] == "ok" else repr(outs[0])
        bad = category(ty) not in case["allowed"]
        return bad, "typeof is %s, documented %s" % (ty, "/".join(case["allowed"]))
    return ktable.replay(ctx, case)
