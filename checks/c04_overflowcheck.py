"""C04 - overflowcheck reports exactly the overflowing C arithmetic (DESIGN §4 C04, engine E3).

Kernels are compiled with `# cython: overflowcheck=True`: flat `a op b` kernels for + - * << unary- // / on every
C integer type (runtime and constant operands on either side, in-place, fold on/off) and Hypothesis-generated nested
side-effect-free expression trees (depth <= 3, three typed variables, constants) under overflowcheck.fold on and off.
The C result type of EVERY operator node is read back with cython.typeof and the judge (vlib/cintmodel.py "ovf")
evaluates the same tree exactly on Python ints.
"""
import os

from hypothesis import strategies as st

from vlib import cintmodel as cm
from vlib import cybuild, harness, hyp, ktable, runner, tree

PID = "C04"
LEVEL = "exploration"
META = {
    "technique": "typed kernel tables under overflowcheck=True: flat +,-,*,<<,unary -,//,/ kernels (13 C integer types, runtime/constant operands, in-place, fold on/off) and Hypothesis-generated nested expression trees, driven with exhaustive 8-bit pairs, boundary^2, near-edge and random operands, judged by exact big-int evaluation of the same tree with the compiler's own node types",
    "level_text": "Exploration: every kernel result must be the exact mathematical value or OverflowError, and must be OverflowError whenever an operator node's exact result does not fit the C type the compiler reports for it (cython.typeof of every sub-expression). 8-bit operand pairs are enumerated exhaustively (promoted to int: no overflow except <<), 16/32/64-bit kernels get boundary^2, operand pairs constructed to land within +-2 of the result type's bounds, and seeded random operands; nested trees exercise ConsolidateOverflowCheck with fold on and off. Spurious OverflowErrors are counted, not judged. Sampling beyond 8 bits.",
    "level_note": "gcc provides __builtin_*_overflow, so the hand-written fallback branches of Overflow.c are compiled out on this image (unreachable here). Trusts CPython int arithmetic; inputs with negative shift counts or sign-changing operand conversions are outside the domain; MIN // -1 is isolated because it can kill the process.",
}

WIDE = ["int", "unsigned int", "long", "unsigned long", "long long", "unsigned long long", "Py_ssize_t", "size_t"]
SMALL = ["signed char", "unsigned char", "char", "short", "unsigned short"]
HEADER = "# cython: language_level=3, overflowcheck=True\ncimport cython\n"
NOFOLD = "@cython.overflowcheck.fold(False)\n"
OPS = ["+", "-", "*", "<<"]
# typedef'd types go through the generic size-dispatching "Binop" template of Overflow.c (named int types do not)
TYPEDEFS = {
    "td_int": ("int", "ctypedef int td_int\n"),
    "td_uint": ("unsigned int", "ctypedef unsigned int td_uint\n"),
    "ext_i32": ("int", 'cdef extern from *:\n    """\n    typedef int ext_i32;\n    """\n    ctypedef long ext_i32\n'),
    "ext_u64": ("unsigned long", 'cdef extern from *:\n    """\n    typedef unsigned long ext_u64;\n    """\n    ctypedef unsigned int ext_u64\n'),
}


def trange(T):
    return cm.bounds(*cm.CTYPES[TYPEDEFS[T][0] if T in TYPEDEFS else T])


def tbits(T):
    return cm.CTYPES[TYPEDEFS[T][0] if T in TYPEDEFS else T][0]


def tdecl(T):
    return TYPEDEFS[T][1] if T in TYPEDEFS else ""


def V(n):
    return ["var", n]


def C(n):
    return ["const", n]


def B(op, l, r):
    return ["bin", op, l, r]


def flat_kernels(T, quick=False):
    """[(tree, form, fold, vars, inplace)] for a wide type."""
    lo, hi = trange(T)
    out = []
    for op in OPS:
        out.append((B(op, V("a"), V("b")), "var", True, ["a", "b"], False))
        out.append((B(op, V("a"), V("b")), "var", False, ["a", "b"], False))
        out.append((B(op, V("a"), V("b")), "inplace", True, ["a", "b"], True))
        if op == "<<":
            rconsts, lconsts = ([0, 1, 31, 32, 64], [1, -1]) if quick else ([0, 1, 5, 31, 32, 63, 64], [1, -1, 3])
        else:
            rconsts, lconsts = ([3, -1, hi, lo], [2, -1]) if quick else ([1, 3, -1, -7, hi, lo], [2, -1, hi])
        for c in rconsts:
            out.append((B(op, V("a"), C(c)), "constrhs", True, ["a"], False))
        for c in lconsts:
            out.append((B(op, C(c), V("a")), "constlhs", True, ["a"], False))
    out.append((["neg", V("a")], "var", True, ["a"], False))
    out.append((B("-", C(0), V("a")), "constlhs", True, ["a"], False))
    out.append((B("//", V("a"), V("b")), "var", True, ["a", "b"], False))
    out.append((B("//", V("a"), C(-1)), "constrhs", True, ["a"], False))
    out.append((B("/", V("a"), V("b")), "var", True, ["a", "b"], False))
    return out


def small_kernels(T):
    out = [(B(op, V("a"), V("b")), "var", True, ["a", "b"], False) for op in OPS]
    out.append((["neg", V("a")], "var", True, ["a"], False))
    out.append((B("+", B("*", V("a"), V("b")), V("a")), "tree", True, ["a", "b"], False))
    return out


@st.composite
def trees(draw, lo, hi):
    consts = [1, 2, 3, 7, -1, -5, 10, 255, 65536, hi, hi // 2, lo] if lo < 0 else [1, 2, 3, 7, 10, 255, 65536, hi, hi // 2]
    leaf = st.one_of(st.sampled_from([V("a"), V("b"), V("c")]), st.sampled_from([V("a"), V("b"), V("c")]),
                     st.sampled_from(consts).map(C))

    def node(depth):
        if depth == 0:
            return leaf
        sub = node(depth - 1)
        return st.one_of(
            sub,
            st.tuples(st.sampled_from(["+", "-", "*"]), sub, sub).map(lambda t: B(t[0], t[1], t[2])),
            st.tuples(sub, st.sampled_from([1, 2, 7, 31])).map(lambda t: B("<<", t[0], C(t[1]))))
    t = draw(node(3))
    return t


def _nvars(t):
    if t[0] == "var":
        return {t[1]}
    if t[0] == "const":
        return set()
    if t[0] == "neg":
        return _nvars(t[1])
    return _nvars(t[2]) | _nvars(t[3])


def _nbin(t):
    return len(cm.tree_nodes(t))


def draw_trees(T, n, seed):
    lo, hi = trange(T)
    got, seen = [], set()
    for t in hyp.draw_many(trees(lo, hi), n * 12, seed, "c04trees", T)[1:]:
        key = cm.tree_source(t)
        # nested (>= 2 operators), at least 2 variables, at least one var in each... keep it simple
        if _nbin(t) < 2 or _nbin(t) > 7 or len(_nvars(t)) < 2 or key in seen:
            continue
        # an all-constant sub-tree is folded by the compiler at compile time (and may be rejected if huge): skip
        if any(not _nvars(nd) for nd in cm.tree_nodes(t)):
            continue
        seen.add(key)
        got.append(t)
        if len(got) >= n:
            break
    return got


def render_kernel(k, T, tr, names, fold, inplace):
    deco = "" if fold else NOFOLD
    sig = ", ".join("%s %s" % (T, v) for v in names)
    if inplace:
        return "%sdef %s(%s):\n    a %s= b\n    return a\n" % (deco, k, sig, tr[1])
    return "%sdef %s(%s):\n    return %s\n" % (deco, k, sig, cm.tree_source(tr))


def module_for(types, seed, quick):
    """source + kernel descriptors for a list of types (one module)."""
    ks = []
    out = [HEADER] + [tdecl(T) for T in types]
    tyfun = []
    for T in types:
        items = small_kernels(T) if T in SMALL else flat_kernels(T, quick)
        if T in TYPEDEFS and quick:
            # quick tier: the typedef'd types only differ in helper dispatch, keep the runtime-operand kernels
            items = [it for it in items if it[1] in ("var", "inplace") or it[0][0] == "neg"]
        if T not in SMALL:
            for tr in draw_trees(T, (4 if T in TYPEDEFS else 8) if quick else 40, seed):
                items.append((tr, "tree", True, ["a", "b", "c"], False))
                items.append((tr, "tree", False, ["a", "b", "c"], False))
        for tr, form, fold, names, inplace in items:
            k = "k%d" % len(ks)
            text = render_kernel(k, T, tr, names, fold, inplace)
            ks.append(dict(k=k, T=T, tree=tr, form=form, fold=fold, vars=names, inplace=inplace, text=text,
                           src=HEADER + tdecl(T) + text))
            out.append(text)
            body = ["def _ty_%s(out):\n" % k] + ["    cdef %s %s = 1\n" % (T, v) for v in ["a", "b", "c"]]
            body.append("    out[%r] = [%s]\n" % (k, ", ".join("cython.typeof(%s)" % cm.tree_source(nd) for nd in cm.tree_nodes(tr))))
            tyfun.append("".join(body))
    out.extend(tyfun)
    out.append("def TYPEOFS():\n    out = {}\n" + "".join("    _ty_%s(out)\n" % d["k"] for d in ks) + "    return out\n")
    allT = WIDE + SMALL + [T for T in types if T in TYPEDEFS]
    out.append("def SIZEOFS():\n    return {%s}\n" % ", ".join("%r: (sizeof(%s), (<%s>-1) < 0)" % (t, t, t) for t in allT))
    return "".join(out), ks


def _type_of(s):
    if s == "double":
        return "double"
    if s in TYPEDEFS:
        return list(trange(s))
    r = cm.type_range(s)
    return list(r) if r else None


def input_specs(d, params, seed, quick):
    T = d["T"]
    lo, hi = trange(T)
    bits = tbits(T)
    nv = len(d["vars"])
    tr = d["tree"]
    top = params["types"][-1]
    res = top if isinstance(top, list) else [lo, hi]
    if bits == 8:
        return [({"kind": "grid", "ranges": [[lo, hi]] * nv}, False, None)]
    sd = hyp.derive(seed, "c04", T, d["k"])
    bv = cm.boundary_values(lo, hi, dense=not quick)
    if nv == 1:
        parts = [{"kind": "product", "axes": [cm.boundary_values(lo, hi, dense=True)]},
                 {"kind": "rand", "seed": sd, "n": 2000 if quick else 50000, "ranges": [[lo, hi]]}]
        if tr[0] == "bin" and tr[1] in ("+", "-", "*") and (tr[2][0] == "const") != (tr[3][0] == "const"):
            # constant operand: walk the edge where the result leaves the result type
            cval = tr[3][1] if tr[3][0] == "const" else tr[2][1]
            edge = []
            for e in (res[0], res[1]):
                for dlt in range(-3, 4):
                    if tr[1] == "+":
                        edge.append(e - cval + dlt)
                    elif tr[1] == "-":
                        edge.append((e + cval + dlt) if tr[3][0] == "const" else (cval - e + dlt))
                    elif cval not in (0,):
                        edge.append(e // cval + dlt)
            parts.append({"kind": "list", "items": [[x] for x in edge if lo <= x <= hi]})
        spec = {"kind": "cat", "parts": parts}
        iso = []
        if tr[0] == "bin" and tr[1] == "//" and lo < 0:
            spec["drop"] = [[lo]]
            iso.append(({"kind": "list", "items": [[lo]]}, True, "input=MIN//-1"))
        return [(spec, False, None)] + iso
    if nv == 2:
        op = tr[1] if tr[0] == "bin" else None
        small_b = op in ("<<", "//", "/")
        parts = [{"kind": "product", "axes": [bv, bv if not op == "<<" else [b for b in bv if -2 <= b <= 70] + list(range(0, 67))]},
                 {"kind": "list", "items": [list(t) for t in hyp.draw_many(
                     st.tuples(st.integers(lo, hi), st.integers(lo, hi)), (100 if quick else 2000) + 1, seed, "c04h", T)[1:]]},
                 {"kind": "rand", "seed": sd, "n": 3000 if quick else 100000, "ranges": [[lo, hi], [lo, hi]], "small_b": small_b}]
        if op in ("+", "-", "*", "<<"):
            parts.append({"kind": "near", "op": op, "seed": sd + 1, "n": 3000 if quick else 100000,
                          "ra": [lo, hi], "rb": [lo, hi], "res": res})
        spec = {"kind": "cat", "parts": parts}
        iso = []
        if op == "//" and lo < 0:
            spec["drop"] = [[lo, -1]]
            iso.append(({"kind": "list", "items": [[lo, -1]]}, True, "input=MIN//-1"))
        return [(spec, False, None)] + iso
    small = sorted({lo, hi, 0, 1, -1 if lo < 0 else 2, 2, 3, hi // 2, hi // 2 + 1, 46341, 65536, 3037000500 if hi > 2 ** 40 else 255,
                    lo // 2 if lo < 0 else 7})
    small = [v for v in small if lo <= v <= hi]
    return [({"kind": "cat", "parts": [{"kind": "product", "axes": [small, small, small]},
                                       {"kind": "rand", "seed": sd, "n": 3000 if quick else 60000, "ranges": [[lo, hi]] * 3}]},
             False, None)]


def op_label(tr):
    if tr[0] == "neg":
        return "neg"
    return tr[1]


def build_specs(ks, typeofs, seed, quick):
    specs = []
    for d in ks:
        tys = [_type_of(s) for s in typeofs[d["k"]]]
        T = d["T"]
        params = {"tree": d["tree"], "types": tys, "vars": d["vars"]}
        if d["inplace"]:
            params["target"] = list(trange(T))
        if d["form"] == "tree":
            opl, shape = "tree", "ops=%d" % len(tys)
        else:
            opl, shape = op_label(d["tree"]), d["form"]
        label = "T=%s|op=%s|form=%s|fold=%s|restype=%s" % (T, opl, d["form"], "on" if d["fold"] else "off", typeofs[d["k"]][-1])
        bucket = "op=%s|form=%s|fold=%s|T=%s|restype=%s" % (opl, d["form"], "on" if d["fold"] else "off", T, typeofs[d["k"]][-1])
        for inp, risky, crash_class in input_specs(d, params, seed, quick):
            specs.append({"k": d["k"], "judge": ["ovf", params], "inputs": inp, "label": label, "bucket": bucket,
                          "src": d["src"], "build": {"ext": ".pyx"}, "risky": risky, "crash_class": crash_class,
                          "ktext": d["text"], "maxnt": 8})
    return specs


def modules(quick):
    return [("small", SMALL), ("typedefs", list(TYPEDEFS))] + [(cm.ident(T), [T]) for T in WIDE]


def _build(arg):
    mname, types, seed, quick, work = arg
    tree.activate_view()
    src, ks = module_for(types, seed, quick)
    name = "c04_" + mname
    so = cybuild.build(src, name, os.path.join(work, "c04", mname), ext=".pyx")
    imp, outs = runner.run_cases("so", so, name, [{"expr": "M.TYPEOFS()"}, {"expr": "M.SIZEOFS()"}])
    if imp[0] != "ok" or outs[0][0] != "ok" or outs[1][0] != "ok":
        raise RuntimeError("C04 module %s unusable: %r %r" % (mname, imp, outs))
    typeofs = {kv[0][1].strip("'"): [x[1].strip("'") for x in kv[1][1]] for kv in outs[0][1][1]}
    sizes = {kv[0][1].strip("'"): (int(kv[1][1][0][1]), kv[1][1][1][1] == "True") for kv in outs[1][1][1]}
    for t, (sz, sg) in sizes.items():
        if (sz * 8, sg) != cm.CTYPES[TYPEDEFS[t][0] if t in TYPEDEFS else t]:
            raise RuntimeError("data model mismatch for %s" % t)
    return ("built", mname, types, so, name, typeofs)


def _drive(arg):
    mname, types, so, name, typeofs, seed, quick, chunk, nchunks = arg
    tree.activate_view()
    part = harness.Part()
    src, ks = module_for(types, seed, quick)
    specs = build_specs(ks, typeofs, seed, quick)
    mine = [s for i, s in enumerate(specs) if i % nchunks == chunk]
    ktable.run_specs(so, name, mine, part, keyprefix="c04")
    if chunk == 0:
        part.count("kernels", len(ks))
        part.count("tree_kernels", sum(1 for d in ks if d["form"] == "tree"))
    return part


def run(ctx):
    built = ctx.pmap(_build, [(m, ts, ctx.seed, ctx.quick, ctx.work) for m, ts in modules(ctx.quick)])
    nchunks = 2 if ctx.quick else 6
    jobs = []
    for _, mname, types, so, name, typeofs in built:
        for c in range(nchunks):
            jobs.append((mname, types, so, name, typeofs, ctx.seed, ctx.quick, c, nchunks))
    ctx.pmap(_drive, jobs)
    ctx.extra["distinct_nontrivial_exact"] = int(ctx.counters.get("nt_exact", 0))
    ctx.extra["spurious_overflow"] = int(ctx.classes.get("in:~spurious-overflow", 0))
    ctx.rule = ("overflowcheck=True kernels: flat {+,-,*,<<} x {runtime operands (fold on/off, in-place), constant right operand, constant "
                "left operand} + unary -, 0 - a, a // b, a // -1, a / b for 8 int-or-wider types and 4 ctypedef'd / extern-ctypedef'd types (generic size-dispatching helper); {+,-,*,<<,unary -, (a*b)+a} for the five "
                "8/16-bit types; Hypothesis expression trees (2-7 operators over a, b, c and constants, + - * and << by a constant) with "
                "overflowcheck.fold on and off. Inputs: exhaustive pairs for 8-bit, boundary^2 / boundary, pairs constructed to land within "
                "+-2 of the result bounds, Hypothesis and seeded random operands. Oracle: exact evaluation with the node types from "
                "cython.typeof. non-trivial = some operator node's exact result lies outside its C type or within 2 of a bound (or b == 0); "
                "distinct by (kernel, inputs); distinct_nontrivial is a bounded hashed sample, exact count in coverage.distinct_nontrivial_exact")
    ctx.assumptions = ["LP64; gcc __builtin_*_overflow available, so the manual fallbacks in Overflow.c are not compiled here",
                       "spurious OverflowError on a fitting result is tolerated (coverage.spurious_overflow)",
                       "negative shift counts and operands whose conversion to the node type changes their value are outside the domain",
                       "in-place kernels: inputs whose exact result does not fit the assigned variable are excluded (C assignment truncation)"]


def replay(ctx, case):
    return ktable.replay(ctx, case)
