"""C47 - source literal stripping is lossless and complete (DESIGN §4 C47).

strip_string_literals (Cython/Build/Dependencies.py, used by parse_dependencies and cython_inline) is run on
generated token sequences (vlib/gen/pytokens.py) and checked by the two oracles of vlib/stripcheck.py:

 (1) round trip, for EVERY input: substituting the labels back reproduces the text; every label of the map
     occurs exactly once in the stripped text;
 (2) completeness, for inputs CPython's tokenize accepts: every character tokenize classifies as string content
     (STRING body, FSTRING_MIDDLE outside replacement fields) or comment text lies inside a label.  Characters of
     an f-string FORMAT SPEC are exempt (the stripper treats a replacement field as code by design), as are
     quote and prefix characters.

Generator modes (shards): "core" never produces the input classes of the recorded findings, so any leak there
is new; "edge" adds those classes (quote or '#' inside a format spec, string glued to `if`); "raw" is random
text over the characters the stripper looks at.
"""
import re

from vlib import harness, hyp, tree, stripcheck
from vlib.gen import pytokens

PID = "C47"
LEVEL = "exploration"
META = {
    "engine": "vlib",
    "technique": "property-based testing: Hypothesis-generated token sequences through "
                 "strip_string_literals, round-trip oracle on every text and a completeness oracle derived from "
                 "CPython's tokenize (3.12 f-string tokens)",
    "level_text": "Exploration: tens of thousands of generated source texts per run (strings of every prefix and quote "
                  "kind with escaped quotes, backslash runs, the other quote kind, '#', newlines, doubled braces; "
                  "f-strings with nested expressions, nested f-strings, conversions, format specs and nested fields, "
                  "PEP 701 quote reuse, comments in fields; adjacent empty strings; comments with quotes; unterminated "
                  "strings; five label prefixes; plus random text over the stripper's special characters). Round trip is "
                  "checked on all of them, completeness on those tokenize accepts. Sampling, not proof.",
    "level_note": "Trusts CPython 3.12's tokenize as the definition of string content and comment text. Format-spec "
                  "characters of f-string replacement fields are exempt from completeness by design. Inputs that already "
                  "contain a label (prefix + digits + '_') are outside the callers' precondition and discarded. No "
                  "coverage-guided (atheris) campaign is run.",
}

NT_FEATURES = {"fstring-field", "triple-quoted", "backslash-before-quote", "hash-in-string", "quote-in-comment"}

def _leak(text, prefix):
    """-> None (no leak / untokenizable / other failure) or (what, msg, info, stripped)"""
    try:
        result = stripcheck.strip(text, prefix)
    except Exception:
        return None
    err, covered = stripcheck.roundtrip(text, prefix, result)
    if err is not None:
        return None
    status, data = stripcheck.completeness(text, prefix, covered)
    if status != "leak":
        return None
    return data[0], data[1], data[2], result[0]


def leak_cause(text, prefix, info):
    """Attribute a leak to the recorded input classes by counterfactual: rewrite the text so that a class no longer
    occurs (same tokens otherwise) and see whether the leak goes away.
    -> "other" if the leak survives neutralising ALL classes present (or none is present);
       the single class whose neutralisation alone removes it; else the '+'-joined classes present."""
    present = stripcheck.causes_present(info)
    if not present:
        return "other"
    t = stripcheck.neutralise(text)
    if t is not None and stripcheck.label_regex(prefix).search(t) is None and _leak(t, prefix) is not None:
        return "other"
    for c in present:
        t = stripcheck.neutralise(text, c)
        if t is not None and stripcheck.label_regex(prefix).search(t) is None and _leak(t, prefix) is None:
            return c
    return "+".join(present)


def evaluate(text, prefix):
    """-> (bucket or None, message, info-set, tokenizable)"""
    try:
        result = stripcheck.strip(text, prefix)
    except Exception as e:
        return "raise:" + type(e).__name__, "strip_string_literals raised %s: %s" % (type(e).__name__, e), set(), False
    err, covered = stripcheck.roundtrip(text, prefix, result)
    if err is not None:
        return "roundtrip:" + err[0], err[1], set(), False
    status, data = stripcheck.completeness(text, prefix, covered)
    if status == "untokenizable":
        return None, "", set(), False
    if status == "ok":
        return None, "", data, True
    what, msg, info, offset = data
    return "leak:" + leak_cause(text, prefix, info), msg + "; stripped text: %r" % result[0][:200], info, True


def _narrower(b2, bucket):
    """b2 is the same bucket or attributes the leak to a subset of the recorded classes bucket names."""
    if b2 == bucket:
        return True
    if b2 is None or not (b2.startswith("leak:") and bucket.startswith("leak:")):
        return False
    if "other" in (b2[5:], bucket[5:]):
        return False
    return set(b2[5:].split("+")) <= set(bucket[5:].split("+"))


def reduce_text(text, prefix, bucket, budget=800):
    """ddmin-style chunk deletion keeping the bucket (a multi-class leak may narrow to one of its classes)."""
    size = max(1, len(text) // 2)
    while size >= 1 and budget > 0:
        i = 0
        changed = False
        while i < len(text) and budget > 0:
            cand = text[:i] + text[i + size:]
            budget -= 1
            b2 = evaluate(cand, prefix)[0] if cand and in_domain(cand, prefix) else None
            if _narrower(b2, bucket):
                text, bucket, changed = cand, b2, True
            else:
                i += size
        if size > 1:
            size //= 2
        elif not changed:
            break
    return text


def in_domain(text, prefix):
    return stripcheck.label_regex(prefix).search(text) is None


def _shard(arg):
    seed, shard, n, mode = arg
    tree.activate_view()
    part = harness.Part()
    found = {}
    examples = hyp.draw_many(pytokens.texts(mode), n + 1, seed, "c47", mode, shard)[1:]
    for text, prefix in examples:
        if not in_domain(text, prefix):
            part.count("discarded_contains_label")
            continue
        bucket, msg, info, tokenizable = evaluate(text, prefix)
        cl = ["mode:" + mode, "tokenizable" if tokenizable else "untokenizable (round trip only)"]
        cl += ["has:" + f for f in sorted(info)]
        if prefix is not None:
            cl.append("prefix-argument")
        nt = bool(info & NT_FEATURES) or (not tokenizable and ("'" in text or '"' in text) and "\\" in text)
        part.case([text, prefix], nt, cl, sample={"text": text, "prefix": prefix, "mode": mode})
        if bucket is not None:
            part.count("failing_texts")
            prev = found.get(bucket)
            if prev is None or len(text) < len(prev[0]):
                found[bucket] = (text, prefix)
    for bucket, (text, prefix) in sorted(found.items()):
        text = reduce_text(text, prefix, bucket)
        b2, msg, info, tokenizable = evaluate(text, prefix)
        part.violation(b2, {"text": text, "prefix": prefix, "mode": mode}, msg)
    return part


def prime():
    """Load every module the shards use before forking / drawing (Hypothesis derives constants from the local modules
    in sys.modules, so the module set must be the same in every worker)."""
    tree.activate_view()
    for text in ("x = f\"{y:'>10}\" + 'abc' # c\n", "a = r'b' + rf'{c!r:>{w}}'\n", "x = 'unterminated"):
        evaluate(text, None)


def run(ctx):
    prime()
    n = 2000 if ctx.quick else 60000
    modes = ["core"] * 9 + ["edge"] * 4 + ["raw"] * 3
    ctx.pmap(_shard, [(ctx.seed, i, n if m != "raw" else 2 * n, m) for i, m in enumerate(modes)])
    # one (shortest) case per bucket
    best, order = {}, []
    for v in ctx.violations:
        b = v[0]
        if not (isinstance(v[1], dict) and "text" in v[1]):
            order.append(v)
        elif b not in best:
            best[b] = v
            order.append(b)
        elif len(v[1]["text"]) < len(best[b][1]["text"]):
            best[b] = v
    ctx.violations[:] = [best[x] if isinstance(x, str) else x for x in order]
    ctx.rule = ("Hypothesis token-sequence texts (1-5 lines of assignments/expressions/comments/cimport lines; strings with "
                "15 prefixes x 4 quote kinds x body pieces; f-strings with 10 prefixes, nested expressions/f-strings, "
                "conversions, format specs; adjacent empty strings; unterminated tails; label prefix argument from 5 "
                "values) in 9 'core' shards, 4 'edge' shards (quote or '#' in a format spec, string glued to `if`) and 3 "
                "'raw' shards (random text over the stripper's special characters). Round trip on every text, "
                "completeness vs tokenize on tokenizable ones (format-spec characters exempt). Non-trivial = the text has "
                "an f-string replacement field, a triple-quoted string, a backslash before a quote, '#' inside a string or "
                "a quote inside a comment (or, if untokenizable, quotes and a backslash); distinct by (text, prefix)")
    ctx.assumptions = ["the input does not already contain a label (prefix, digits, '_') - the callers' precondition",
                       "tokenize of the hosting CPython 3.12 defines string content and comment text",
                       "f-string format-spec characters are code for the stripper by design and exempt"]


def replay(ctx, case):
    prime()
    bucket, msg, info, tokenizable = evaluate(case["text"], case.get("prefix"))
    if bucket is None:
        return False, "round trip and completeness hold"
    return True, "%s: %s" % (bucket, msg)
