"""C34 - fused functions dispatch to the matching specialisation (DESIGN §4 C34, engine E2 `.pyx`).

Generated fused types (2-4 candidates out of C integer/float/complex widths, object, str, bytes, list, a cdef class)
are used by def / cpdef / method / two-argument functions whose body returns (cython.typeof(arg), value).  Calls with
runtime values of every kind, keyword passing, explicit indexing (incl. multi-type index strings) and a fixed
memoryview module (numpy dtypes / ndim / contiguity / array.array) are compared with a dispatch model transcribed
from docs/src/userguide/fusedtypes.rst and FusedNode.py.
"""
import os

from vlib import cybuild, diffmod, harness, hyp, runner, runner_main, tree
from vlib.gen import fusedgen as fg

PID = "C34"
LEVEL = "exploration"
META = {
    "technique": "property-based testing of generated fused-type functions against a transcribed dispatch model (runtime type -> specialisation, value = generic computation), plus a fixed numpy/memoryview dispatch table",
    "level_text": "Exploration: fused types with 2-4 candidates drawn from {short,int,long,long long,float,double,float complex,double complex,object,str,bytes,list,cdef class} are used in def, cpdef, cdef-class-method, shared two-argument and independent two-argument functions returning (cython.typeof(arg), arg+arg). Each is called with ints, bools, floats, complex, str/bytes/list, None, tuples, int/float subclasses, numpy scalars, extension-type instances, by keyword, and through explicit indexing f['double'], f['int, double'] (tuple / string / whitespace variants) and an invalid index. Expected specialisation = biggest candidate of the Python-type group the value is an instance of, else object, else TypeError; expected value = Python computation. One memoryview module checks dtype kind/itemsize/sign, ndim, C-contiguity, array.array and non-buffer arguments for 1-D/2-D fused memoryviews. Sampling, no proof.",
    "level_note": "Oracle = dispatch rules transcribed from docs/src/userguide/fusedtypes.rst and FusedNode._split_fused_types/_fused_instance_checks (pinned on the unchanged tree). Values are chosen to be exactly representable in every candidate of their group. Requires numpy (present in the image). Compiled code runs in isolated runner subprocesses.",
}
N_ITEMS = 12
VALUE_KEYS = list(fg.VALUES)
TYPEOFS = set(v[2] for v in fg.CANDS.values()) | {"double[:]", "float[:]", "int[:]", "long[:]", "short[:]", "double[:, :]",
                                                   "int[:, ::1]", "float[:, :]"}


def _interleaved(cands):
    """1 if a complex candidate is declared between two candidates of the same real numeric group, or a real numeric
    candidate between two complex candidates (the two shapes for which the candidate sort is inconsistent)."""
    for i in range(len(cands)):
        for k in range(i + 2, len(cands)):
            gi, gk = fg.CANDS[cands[i]][0], fg.CANDS[cands[k]][0]
            if gi == gk and gi in ("int", "float"):
                if any(fg.CANDS[cands[j]][0] == "complex" for j in range(i + 1, k)):
                    return 1
            if gi == gk == "complex":
                if any(fg.CANDS[cands[j]][0] in ("int", "float") for j in range(i + 1, k)):
                    return 1
    return 0


def _draw(seed, shard, n):
    its = hyp.draw_many(fg.fused_item(), n + 1, seed, "c34", shard)[1:]
    out = []
    for i, it in enumerate(its):
        it = dict(it, id=str(i))
        vals = hyp.draw_many(_values_strategy(), 2, seed, "c34v", shard, i)[-1]
        out.append((it, vals))
    return out


def _values_strategy():
    from hypothesis import strategies as st
    from vlib.gen.uni import sample

    @st.composite
    def vs(draw):
        return sample(draw, VALUE_KEYS, 7)
    return vs()


def _match(want, got):
    if want[0] == "exc":
        return got[0] == "exc" and got[1] in want[1]
    if got[0] != "ok":
        return False
    exp = want[1]
    w = runner_main.canon(tuple(None if x is fg.ANY else x for x in exp))
    g = got[1]
    if any(x is fg.ANY for x in exp):
        try:
            g = [g[0], [(["None"] if exp[k] is fg.ANY else v) for k, v in enumerate(g[1])]]
        except Exception:
            return False
    return g == w


def _judge(part, key, c, got, extra_label, case):
    part.case(key, c["nt"], ["kind:" + c["kind"], "expect:" + (c["want"][0] if c["want"][0] == "exc" else c["want"][1][0])] + extra_label,
              sample={"call": c["expr"], "expected": repr(c["want"]), "got": diffmod.json_short(g_short(got))})
    if not _match(c["want"], got):
        def types_of(t):
            return "|".join(x for x in t if isinstance(x, str) and (x in TYPEOFS))
        if got[0] == "ok":
            try:
                gk = types_of([eval(x[1]) for x in got[1][1] if x[0] == "str"])
            except Exception:
                gk = "?"
        else:
            gk = got[0] + ":" + str(got[1] if len(got) > 1 else "")
        wk = types_of(c["want"][1]) if c["want"][0] == "ok" else "exc"
        part.violation("%s;want=%s;got=%s;%s" % (c["kind"], wk, gk, ";".join(extra_label)), case,
                       "%s: expected %r, got %s" % (c["expr"], c["want"], diffmod.json_short(got, 300)))


def g_short(g):
    return g


def _shard(arg):
    seed, shard, n = arg
    tree.activate_view()
    part = harness.Part()
    outdir = os.path.join(tree.workdir(), "c34")
    if shard == "mv":
        name = "c34mv"
        so = cybuild.build(fg.MV_SRC, name, os.path.join(outdir, name), ext=".pyx")
        cases = fg.mv_cases()
        imp, got = runner.run_cases("so", so, name, [{"expr": c["expr"]} for c in cases], setup=fg.MV_SETUP)
        if imp[0] != "ok":
            part.violation("import;mv", {"kind": "mv", "expr": None}, "memoryview module import failed: %s" % (imp,))
            return part
        for c, g in zip(cases, got):
            _judge(part, ["mv", c["expr"]], c, g, ["module:memoryview"], {"kind": "mv", "expr": c["expr"]})
        part.count("modules")
        return part
    items = _draw(seed, shard, n)
    name = "c34m%d" % shard
    so = cybuild.build(fg.render_module([it for it, _ in items]), name, os.path.join(outdir, name), ext=".pyx")
    per = [fg.item_cases(it, vals) for it, vals in items]
    flat = [{"expr": c["expr"]} for p in per for c in p]
    imp, got = runner.run_cases("so", so, name, flat, setup=fg.SETUP)
    if imp[0] != "ok":
        part.violation("import;%s" % name, {"kind": "module", "items": [it for it, _ in items]}, "module import failed: %s" % (imp,))
        return part
    i = 0
    for (it, vals), p in zip(items, per):
        for c, g in zip(p, got[i:i + len(p)]):
            _judge(part, [it, c["expr"]], c, g, ["interleaved:F%dG%d" % (_interleaved(it["F"]), _interleaved(it["G"]))],
                   {"kind": "item", "item": it, "values": vals, "expr": c["expr"]})
        i += len(p)
    part.count("modules")
    part.count("fused_items", len(items))
    return part


def run(ctx):
    nshards = 6 if ctx.quick else 60
    ctx.pmap(_shard, [(ctx.seed, "mv", 0)] + [(ctx.seed, s, N_ITEMS) for s in range(nshards)])
    ctx.rule = ("Hypothesis-drawn pairs of fused types (2-4 of 13 candidates each), %d per module, five functions each (def, cpdef, "
                "method, shared two-argument, independent two-argument); 7 drawn runtime values per item out of 17 (ints, bool, "
                "floats, complex, str, bytes, list, None, tuple, int/float subclasses, cdef class instance, numpy scalars), keyword "
                "call, explicit indexing per candidate, two-type index in 4 spellings, invalid index; plus the fixed memoryview "
                "table (numpy dtype x ndim x contiguity, array.array, non-buffers). oracle = transcribed dispatch model. "
                "non-trivial = >= 2 candidates (incl. object) could take the value, or no candidate matches, or a two-argument / "
                "indexed / memoryview call; distinct by (declaration, call)" % N_ITEMS)
    ctx.assumptions = ["dispatch rules as documented in fusedtypes.rst and implemented by FusedNode (isinstance per Python-type "
                       "group, biggest numeric candidate first, object fallback)", "numpy available"]


def replay(ctx, case):
    tree.activate_view()
    part = harness.Part()
    outdir = os.path.join(ctx.work, "c34replay")
    name = "c34r" + harness.khash(case)
    if case["kind"] == "mv":
        so = cybuild.build(fg.MV_SRC, name, os.path.join(outdir, name), ext=".pyx")
        cases = [c for c in fg.mv_cases() if case.get("expr") in (None, c["expr"])]
        setup = fg.MV_SETUP
    elif case["kind"] == "module":
        so = cybuild.build(fg.render_module(case["items"]), name, os.path.join(outdir, name), ext=".pyx")
        cases, setup = [], fg.SETUP
    else:
        it = case["item"]
        so = cybuild.build(fg.render_module([it]), name, os.path.join(outdir, name), ext=".pyx")
        cases = [c for c in fg.item_cases(it, case["values"]) if c["expr"] == case["expr"]][:1]
        setup = fg.SETUP
    imp, got = runner.run_cases("so", so, name, [{"expr": c["expr"]} for c in cases], setup=setup)
    if imp[0] != "ok":
        return True, "import failed: %s" % (imp,)
    for c, g in zip(cases, got):
        if not _match(c["want"], g):
            return True, "%s: expected %r, got %s" % (c["expr"], c["want"], diffmod.json_short(g, 300))
    return False, "matches the dispatch model"
