"""C37 - prange gives sequential results and a safe exit on every schedule (DESIGN §4 C37, engine E3 + OpenMP).

One .pyx module compiled with -fopenmp holds 23 prange kernels (reductions + lastprivate + index variable, disjoint
writes, `with gil` blocks, `continue`, and per-iteration exit behaviour break / return / raise) x schedules
{default, static, dynamic, guided, runtime} x {no, runtime} chunksize.  vlib/prangedrive.py runs them inside runner
subprocesses under Hypothesis-drawn configurations (range, step, num_threads 1..16, chunksize, per-iteration delay
vectors, exit vectors), each repeated r times, and judges against the sequential Python loop / the set of outcomes
the documented best-effort rules allow.
"""
import ast
import json
import os

from vlib import cybuild, harness, hyp, runner, tree
from vlib import prangedrive
from vlib.gen import prangekern as pk

PID = "C37"
LEVEL = "exploration"
META = {
    "technique": "property-based testing of OpenMP prange kernels: generated (range, step, num_threads, schedule, chunksize, per-iteration delay and exit vectors) configurations, repeated runs, compared with the sequential loop or with the documented set of admissible exit outcomes; exception objects are counted for leaks",
    "level_text": "Exploration: 23 kernels (5 body kinds x schedules default / static / dynamic / guided / runtime x chunksize yes / no) are run under ~60 generated configurations each, 3 times (quick) / 20 times (thorough): 0..70 iterations incl. empty ranges, steps 1, 2, 3, 7, -1, -2, -5 with unaligned stop values, 1..16 threads, chunk sizes 1, 2, 7, n/2, n, delay vectors that make early or late iterations slow, three OMP_SCHEDULE settings for the runtime schedule. No-exit bodies must reproduce every reduction (+ ^ | & - * on integers, + - on doubles with exactly representable terms), the lastprivate value, the final index, every array element and the multiset of iterations seen under the GIL. Exit bodies must end in an admissible outcome (an exception some iteration raises / a value some iteration returns / completion; an exception or return that is the only kind of exit must win; one thread + static schedule must equal the sequential loop) and leave no exception object alive. This samples the interleavings the OpenMP runtime happens to produce (perturbed by the delays); it does not enumerate them, and the exhaustive model of the exception hand-off protocol named in the property's quantifier is NOT built (a model-checking artefact).",
    "level_note": "Trusts libgomp and the sequential Python loop as reference. A concurrency defect shows only statistically: a failing configuration is re-run 200 times in the replay. Thread counts above the number of idle cores still interleave (the machine time-slices them).",
}

MODEL = os.path.abspath(prangedrive.__file__)
OMP_ENVS = ["static", "dynamic,2", "guided,3"]


def _build(arg):
    name, src, work = arg
    tree.activate_view()
    so = cybuild.build(src, name, os.path.join(work, "c37", name), ext=".pyx", extra=["-fopenmp"])
    return so


def run_jobs(so, name, jobs, omp_schedule=None, case_timeout=300):
    env = dict(os.environ)
    if omp_schedule:
        env["OMP_SCHEDULE"] = omp_schedule
    env["OMP_DYNAMIC"] = "false"
    cases = [{"expr": "prangedrive.run(M, %r)" % json.dumps([j])} for j in jobs]
    imp, outs = runner.run_cases("so", so, name, cases, support=(runner.VSUPPORT, MODEL), env=env, case_timeout=case_timeout,
                                 timeout=case_timeout * 2 + 60, max_restarts=len(cases) + 3)
    if imp[0] != "ok":
        raise RuntimeError("C37 module failed to import: %r" % (imp,))
    res = []
    for o in outs:
        if o[0] == "ok" and o[1][0] == "str":
            res.append(json.loads(ast.literal_eval(o[1][1]))[0])
        elif o[0] == "crash":
            res.append(("crash", o[1], (o[2] if len(o) > 2 else "")[-300:]))
        elif o[0] in ("timeout", "notrun"):
            res.append((o[0],))
        else:
            res.append(("error", json.dumps(o)[:1500]))
    return res


def _replay_dict(d, cfg, omp):
    dd = dict(d, k="k")
    return {"desc": dd, "config": cfg, "omp_schedule": omp, "src": pk.single_source(dd)}


def _drive(arg):
    so, name, jobs, omp = arg
    tree.activate_view()
    part = harness.Part()
    for job, res in zip(jobs, run_jobs(so, name, jobs, omp)):
        d = job["desc"]
        if isinstance(res, tuple):
            if res[0] == "crash":
                # localise the configuration: one runner case per configuration
                singles = [dict(job, configs=[c]) for c in job["configs"]]
                found = False
                for sj, sr in zip(singles, run_jobs(so, name, singles, omp, case_timeout=60)):
                    if isinstance(sr, tuple) and sr[0] == "crash":
                        found = True
                        part.evaluations += 1
                        part.violation("%s|sched=%s%s|crash:%s" % (d["body"], d["sched"] or "default", "+chunksize" if d["cs"] else "", sr[1]),
                                       _replay_dict(d, sj["configs"][0], omp),
                                       "%s %r killed the process with %s %s" % (d["k"], sj["configs"][0], sr[1], sr[2][-200:]))
                        break
                    elif not isinstance(sr, tuple):
                        _record(part, sj, sr, omp)
                if not found:
                    part.count("unlocalised_crashes")
                    part.violation("%s|sched=%s%s|crash:%s|unlocalised" % (d["body"], d["sched"] or "default", "+chunksize" if d["cs"] else "", res[1]),
                                   _replay_dict(d, job["configs"][0], omp), "%s: batch killed the process with %s" % (d["k"], res[1]))
            elif res[0] in ("timeout", "notrun"):
                part.count("timeouts")
            else:
                raise RuntimeError("C37 driver error in %s: %s" % (d["k"], res[1]))
            continue
        _record(part, job, res, omp)
    return part


def _record(part, job, res, omp):
    d = job["desc"]
    part.evaluations += res["n"]
    part.counters["nt_exact"] += res["nt"]
    for cl, n in res["cls"].items():
        part.classes[cl] += n
    for k, cfg in res["ntkeys"]:
        part.evaluations -= 1
        part.case([k, cfg, omp], True, None, sample={"kernel": pk.kernel_text(d).strip()[:400], "config": cfg})
    for bucket, case, what in res["bad"]:
        part.violation(bucket, _replay_dict(d, case["config"], omp), what)
    part.counters["failing_configurations"] += res["nbad"]


def run(ctx):
    ks = pk.kernels()
    name = "c37m"
    so = ctx.pmap(_build, [(name, pk.module_source(ks), ctx.work)])[0]
    ncfg = 60 if ctx.quick else 200
    reps = 3 if ctx.quick else 8
    tasks = []
    for i, d in enumerate(ks):
        cfgs = hyp.draw_many(pk.config(d["body"]), ncfg + 1, ctx.seed, "c37", d["k"])[1:]
        if d["sched"] == "runtime":
            third = max(1, len(cfgs) // 3)
            for j, omp in enumerate(OMP_ENVS):
                part = cfgs[j * third:(j + 1) * third]
                if part:
                    tasks.append((so, name, [{"desc": d, "configs": part, "reps": reps}], omp))
        else:
            half = len(cfgs) // 2
            tasks.append((so, name, [{"desc": d, "configs": cfgs[:half], "reps": reps}], None))
            tasks.append((so, name, [{"desc": d, "configs": cfgs[half:], "reps": reps}], None))
    ctx.pmap(_drive, tasks)
    ctx.counters["kernels"] = len(ks)
    ctx.extra["distinct_nontrivial_exact"] = int(ctx.counters.get("nt_exact", 0))
    ctx.rule = ("23 prange kernels = bodies {R: 6 integer + 2 double reductions, lastprivate, index; W: disjoint writes; G: with-gil "
                "append; C: continue; X: exit per iteration (break / return / raise in with gil) from an input vector} x schedule "
                "{default, static, dynamic, guided, runtime (OMP_SCHEDULE static | dynamic,2 | guided,3)} x runtime chunksize; per "
                "kernel 60 (quick) / 400 Hypothesis configurations: 0..70 iterations, steps {1,2,3,7,-1,-2,-5} with unaligned stop, "
                "num_threads 1..16, chunksize {1,2,7,n/2,n}, delay vectors {none, random, early-slow, late-slow}, exit vectors {none, "
                "all raise, 1-3 of one kind, 2-5 mixed}; each configuration run 3 (quick) / 20 times. oracle: sequential Python loop "
                "for R/W/G/C (every field); for X the admissible set: Boom(i) only for raising i, return value only from returning i, "
                "sole exit kind must win, one thread + static = sequential, live Boom count back to baseline. non-trivial = "
                "num_threads >= 2 with >= 2*threads iterations, or >= 2 different exit kinds; distinct by (kernel, configuration). "
                "distinct_nontrivial is a bounded hashed sample; coverage.distinct_nontrivial_exact is the exact count")
    ctx.assumptions = ["libgomp implements the OpenMP schedules; the sequential Python loop is the reference",
                       "interleavings are sampled (delays + repeated runs), not enumerated; the protocol model of the quantifier is not built",
                       "index variable and lastprivate values are judged for non-empty ranges only",
                       "double reductions use terms i*0.5 / i*0.25 (exact), so associativity cannot matter"]


_cache = {}


def replay(ctx, case):
    tree.activate_view()
    key = cybuild.sha12(case["src"])
    if key not in _cache:
        _cache[key] = cybuild.build(case["src"], "c37r", os.path.join(ctx.work, "c37replay", key), ext=".pyx", extra=["-fopenmp"])
    job = {"desc": case["desc"], "configs": [case["config"]], "reps": 200}
    res = run_jobs(_cache[key], "c37r", [job], case.get("omp_schedule"), case_timeout=120)[0]
    if isinstance(res, tuple):
        if res[0] == "crash":
            return True, "killed the process with %s" % res[1]
        return False, "inconclusive: %r" % (res,)
    if res["bad"]:
        return True, "%s (within %d repetitions)" % (res["bad"][0][2], res["n"])
    return False, "200 repetitions agree"
