"""C21 - unbound local variables fail exactly where CPython fails (DESIGN §4 C21, engine E2)."""
import json
import os
import re

from vlib import diffmod, e2util, harness, runner, tree
from vlib.gen import unbound

PID = "C21"
LEVEL = "exploration"
META = {
    "technique": "property-based differential testing: generated control-flow skeletons with assign/del/read of locals, closure cells, loop targets, except/with/match names and globals; all 2^b branch-selector inputs executed; reads compared with CPython in default and lenient configuration",
    "level_text": "Exploration: Hypothesis-seeded generator of functions made of if/elif/else, for/while with break/continue/else, try/except(as)/else/finally with injected raises, with (failing __enter__), match captures, inner functions reading/assigning/deleting a closure cell via nonlocal, comprehensions, guarded return, over 2-4 locals plus closure/loop/except-as/with-as/match/global names of two value classes (int literals only - a candidate for C integer inference - or strings). Every function is executed for all 2^b (b <= 6) inputs, so each path combination of the skeleton runs; each read/del logs a marker and then the value or (UnboundLocalError|NameError, variable name). Compared with CPython on the same source, in the default configuration (programs rejected for a definitely-unbound read are checked against CPython: every execution reaching that read must fail) and in the lenient configuration (error_on_uninitialized / error_on_unknown_names off). Sampling of programs, exhaustive in the selector bits; no proof.",
    "level_note": "Trusts CPython 3.12 as reference; exception message texts are not compared (type and variable name are); compiled code runs in isolated runner subprocesses (a crash is a violation); no sanitizer run in this check.",
}
K = 8


def case_of(it, exprs, lenient=False):
    pre = None
    for c in it.get("cases", []):
        if "pre" in c:
            pre = c["pre"]
    return {"header": unbound.HEADER, "setup": unbound.SETUP, "src": it["src"], "exprs": list(exprs),
            "lenient": bool(lenient), "pre": pre, "cls": it.get("meta", {}).get("cls", {})}


class _Lenient:
    def __init__(self, on):
        self.on = on

    def __enter__(self):
        tree.activate_view()
        from Cython.Compiler import Options
        self.opts = Options
        self.saved = (Options.error_on_uninitialized, Options.error_on_unknown_names)
        if self.on:
            Options.error_on_uninitialized = False
            Options.error_on_unknown_names = False

    def __exit__(self, *a):
        self.opts.error_on_uninitialized, self.opts.error_on_unknown_names = self.saved


def _entries(o):
    return e2util.log_of(o)


def _is_at(e):
    return e[0] == "tuple" and len(e[1]) == 2 and e[1][0] == ["str", "'at'"]


def _is_ub(e):
    return e[0] == "tuple" and len(e[1]) == 4 and e[1][1] == ["str", "'unbound'"]


def _var_of_read(src, rid):
    """name read/deleted at marker AT(rid) (the statement following it)"""
    lines = src.split("\n")
    for i, l in enumerate(lines):
        if l.strip() == "AT(%d)" % rid and i + 1 < len(lines):
            nxt = lines[i + 1].strip()
            m = re.match(r"del (\w+)$", nxt)
            if m:
                return m.group(1), "del"
            m = re.match(r"return (\w+)$", nxt)
            if m:
                return m.group(1), "inner-read"
            m = re.match(r"LOG\.append\(\[(\w+) for (\w+) in", nxt)
            if m:
                return m.group(1), "comp-shadow" if m.group(1) == m.group(2) else "comp-read"
            m = re.match(r"LOG\.append\((\w+)\)$", nxt)
            if m:
                return m.group(1), "read"
    return "?", "?"


def bucket_of(src, cls_map, r, g, cls, lenient=False):
    return ("lenient:" if lenient else "default:") + _bucket_of(src, cls_map, r, g, cls)


def _bucket_of(src, cls_map, r, g, cls):
    """<what>|<variable kind>:<value class>|<access kind>;  what = stale (CPython raises for the access, compiled
    code produced a value / went on), spurious (CPython bound, compiled raises), exctype:A->B, name (a different
    variable is named), value (both bound, values differ), flow (anything else)"""
    kind = cls.split(":")[0]
    if kind.startswith("crash") or kind in ("timeout", "notrun"):
        return cls
    rl, gl = _entries(r), _entries(g)
    i = 0
    while i < len(rl) and i < len(gl) and rl[i] == gl[i]:
        i += 1
    # the access in question: last marker in the common prefix
    rid, k = None, None
    for k in range(min(i, len(rl)) - 1, -1, -1):
        if _is_at(rl[k]):
            rid = int(rl[k][1][1][1])
            break
    if rid is None:
        return "flow|?|?"
    var, acc = _var_of_read(src, rid)
    vk = (var[0] if var else "?") + ":" + cls_map.get(var, "?")

    def failed(log, o):
        f = access_failed(log, k, acc, rid)
        if f is True and k + 1 >= len(log) and "'unbound'" not in json.dumps(o[:2]):
            return None
        return f

    rf, gf = failed(rl, r), failed(gl, g)
    if rf is True and gf is False:
        return "stale|%s|%s" % (vk, acc)
    if rf is True and gf is None and acc == "del":
        return "stale|%s|%s" % (vk, acc)
    if rf is False and gf is True:
        return "spurious|%s|%s" % (vk, acc)
    if rf is True and gf is True:
        ru = rl[k + 1] if k + 1 < len(rl) and _is_ub(rl[k + 1]) else None
        gu = gl[k + 1] if k + 1 < len(gl) and _is_ub(gl[k + 1]) else None
        rv = json.dumps(ru[1][2:] if ru else r[:2])
        gv = json.dumps(gu[1][2:] if gu else g[:2])
        rt, gt = re.findall(r"'(\w*Error)'", rv), re.findall(r"'(\w*Error)'", gv)
        if rt[:1] != gt[:1]:
            return "exctype:%s->%s|%s|%s" % ("".join(rt[:1]), "".join(gt[:1]), vk, acc)
        if rv != gv:
            return "name|%s|%s" % (vk, acc)
        return "flow-after-unbound|%s|%s" % (vk, acc)
    if rf is False and gf is False:
        return "value|%s|%s" % (vk, acc)
    return "flow|%s|%s" % (vk, acc)


def access_failed(log, i, acc, rid):
    """log[i] is the marker ("at", rid).  True: the access raised; False: it succeeded; None: cannot tell."""
    nxt = log[i + 1] if i + 1 < len(log) else None
    if nxt is not None and _is_ub(nxt):
        return nxt[1][0] == ["int", str(rid)] or None
    if acc == "del":
        return False if nxt is not None and not _is_at(nxt) else None
    if nxt is None or _is_at(nxt):
        return True          # nothing was appended after the marker: the read raised (bare read propagating)
    return False


ERR_RX = re.compile(r"^\S+:(\d+):(\d+): (local variable '(\w+)' referenced before assignment|undeclared name not builtin: (\w+))")


def _prepass(items, part, outdir, name):
    """default configuration: Cython rejects programs with a DEFINITELY unbound access at compile time (by
    design).  Replace the rejected accesses by `pass` (up to 5 rounds, whole module at once: Cython reports all
    errors of a module) so that the rest of each skeleton is still compiled and run, and remember
    (original item, rejected markers) for the by-design check."""
    from vlib import cybuild
    header_lines = unbound.HEADER.count("\n")
    d = os.path.join(outdir, name + "_pre")
    os.makedirs(d, exist_ok=True)
    cur = list(items)
    rids = [[] for _ in items]
    dropped = set()
    for rnd in range(5):
        live = [k for k in range(len(cur)) if k not in dropped]
        # line ranges of the items inside the rendered module
        starts = []
        ln = header_lines
        for k in live:
            n = cur[k]["src"].count("\n") + 1
            starts.append((ln, ln + n, k))
            ln += n + 1            # items are joined by a blank line
        pth = os.path.join(d, "pre_%d.py" % rnd)
        with open(pth, "w") as f:
            f.write(diffmod.render([cur[k] for k in live], unbound.HEADER))
        try:
            cybuild.cython_compile(pth)
            break
        except cybuild.CythonError as e:
            errlines = [str(l) for l in e.errors if re.match(r"^\S+:\d+:\d+: ", str(l))]
        except Exception as e:
            part.classes["rejected[default]:internal %s" % type(e).__name__] += 1
            break
        changed = False
        for l in errlines:
            m0 = re.match(r"^\S+:(\d+):(\d+): (.*)", l)
            lineno = int(m0.group(1)) - 1          # 0-based line in the module
            owner = next((t for t in starts if t[0] <= lineno < t[1]), None)
            if owner is None:
                continue
            k = owner[2]
            m = ERR_RX.match(l)
            if not m:
                # some other rejection: drop the item (counted)
                if k not in dropped:
                    dropped.add(k)
                    part.count("cython_rejected_items")
                    part.classes["rejected[default]:" + re.sub(r"'[^']*'", "'_'", m0.group(3))[:70]] += 1
                    changed = True
                continue
            lines = cur[k]["src"].split("\n")
            ln = lineno - owner[0]
            part.classes["rejected-access[default]:" + ("unbound" if m.group(4) else "unknown-name")] += 1
            for back in (1, 2):
                mm = re.match(r"\s*AT\((\d+)\)$", lines[ln - back]) if ln - back >= 0 else None
                if mm:
                    rids[k].append(int(mm.group(1)))
                    break
            ind = lines[ln][:len(lines[ln]) - len(lines[ln].lstrip())]
            repl = ind + ("return None" if lines[ln].strip().startswith("return") else "pass")
            if lines[ln] != repl:
                lines[ln] = repl
                changed = True
                cur[k] = dict(cur[k], src="\n".join(lines))
        if not changed:
            break
    rejected = [(items[k], sorted(set(rids[k]))) for k in range(len(items)) if rids[k]]
    part.count("programs_with_rejected_access", len(rejected))
    return [cur[k] for k in range(len(cur)) if k not in dropped], rejected


def _check_rejected(part, rejected, outdir, name):
    """Every access rejected at compile time must fail under CPython on every execution that reaches it."""
    if not rejected:
        return
    items = [it for it, _ in rejected]
    d = os.path.join(outdir, name + "_ref")
    os.makedirs(d, exist_ok=True)
    pth = os.path.join(d, name + "_ref.py")
    with open(pth, "w") as f:
        f.write(diffmod.render(items, unbound.HEADER))
    imp, outs = runner.run_cases("py", pth, name + "_ref", diffmod.flat_cases(items), setup=unbound.SETUP, always_log=True)
    for (it, rids), res in zip(rejected, diffmod.unflat(items, outs)):
        accs = {rid: _var_of_read(it["src"], rid)[1] for rid in rids}
        bad = False
        for c, o in zip(it["cases"], res):
            log = _entries(o)
            for i, e in enumerate(log):
                if _is_at(e) and int(e[1][1][1]) in accs:
                    rid = int(e[1][1][1])
                    failed = access_failed(log, i, accs[rid], rid)
                    if failed is None:
                        continue
                    part.case([it["src"], c["expr"], "rejected", rid], True, "rejected-by-design:" + ("confirmed" if failed else "REFUTED"))
                    if not failed and not bad:
                        bad = True
                        part.violation("rejected-reachable-bound", case_of(it, [c["expr"]]),
                                       "Cython rejects the access at marker AT(%d) at compile time but under CPython %s reaches it with the "
                                       "variable bound: %s" % (rid, c["expr"], diffmod.json_short(o, 500)))


def _shard(arg):
    seed, shard, nmods = arg
    lenient = shard % 2 == 1
    tree.activate_view()
    part = harness.Part()
    outdir = os.path.join(tree.workdir(), "c21", "s%d" % shard)
    cfg = "lenient" if lenient else "default"

    def co(it, exprs):
        return case_of(it, exprs, lenient)

    for m in range(nmods):
        items = unbound.draw_items(K, seed, ("c21", shard, m), "%d_%d" % (shard, m))
        name = "c21m_%d_%d" % (shard, m)
        if not lenient:
            items, rejected = _prepass(items, part, outdir, name)
            _check_rejected(part, rejected, outdir, name)
        with _Lenient(lenient):
            results = list(e2util.run_isolating(items, name, outdir, header=unbound.HEADER, setup=unbound.SETUP, always_log=True))
        for sub, res in results:
            if res.status == "cyerror":
                part.count("cython_rejected_items", len(sub))
                msgs = diffmod.cy_error_messages(res.detail)[:1] or [str((res.detail or ["?"])[0])[:80]]
                part.classes["rejected[%s]:%s" % (cfg, msgs[0][:70])] += 1
                if lenient and len(sub) == 1 and any(ERR_RX.match(str(l)) for l in res.detail or []):
                    part.violation("lenient-rejects", co(sub[0], []), "lenient configuration still rejects: %s" % str(res.detail)[-300:])
                continue
            if res.status == "ccerror":
                part.count("c_compile_failed_items", len(sub))
                if len(sub) == 1:
                    part.violation("build:ccerror", co(sub[0], [c["expr"] for c in sub[0]["cases"]][:2]),
                                   "generated C does not compile: %s" % str(res.detail)[-600:])
                continue
            if res.status == "import-diff":
                part.violation("import-diff", co({"src": "\n\n".join(it["src"] for it in sub), "cases": [], "meta": {}}, []),
                               "module import differs: %s" % diffmod.json_short(res.detail, 600))
                continue
            for it, refs, gots in zip(sub, res.ref, res.got):
                meta = it["meta"]
                # program-level non-triviality: a read site that is bound on some input and unbound on another, or
                # an unbound access in a program that deletes
                seen = {}
                any_ub = False
                for r in refs:
                    log = _entries(r)
                    for i, e in enumerate(log):
                        if _is_at(e):
                            rid = int(e[1][1][1])
                            ub = access_failed(log, i, "read", rid)
                            if ub is None:
                                continue
                            any_ub = any_ub or ub
                            seen.setdefault(rid, set()).add(ub)
                nt_prog = any(len(v) == 2 for v in seen.values()) or (any_ub and meta["has_del"])
                for c, r, g in zip(it["cases"], refs, gots):
                    part.case([it["src"], c["expr"], cfg], nt_prog, ["config:" + cfg] + ["feat:" + f for f in meta["features"]],
                              sample={"config": cfg, "src": it["src"], "call": c["expr"], "cpython": diffmod.json_short(r, 500),
                                      "compiled": diffmod.json_short(g, 500)})
                    if r[0] == "timeout" or g[0] == "timeout":
                        part.count("timeouts")
                    cls = diffmod.compare(r, g, "full")
                    if cls is not None:
                        b = bucket_of(it["src"], meta["cls"], r, g, cls, lenient)
                        part.violation(b, co(it, [c["expr"]]),
                                       "[%s] %s: %s: CPython %s vs compiled %s" % (cfg, c["expr"], cls, diffmod.json_short(r, 600), diffmod.json_short(g, 600)))
    return part


def _run_case(case, outdir, name="c21r"):
    cases = [dict({"expr": e}, **({"pre": case["pre"]} if case.get("pre") else {})) for e in case["exprs"]]
    items = [{"src": case["src"], "cases": cases}]
    with _Lenient(case.get("lenient", False)):
        return diffmod.run_batch(items, name, outdir, header=case["header"], setup=case.get("setup"), always_log=True)


def _reduce_one(job):
    bucket, case, work = job
    tree.activate_view()
    from vlib import cybuild

    def pred(text):
        try:
            res = _run_case(dict(case, src=text), os.path.join(work, "c21red", cybuild.sha12(bucket)), "red")
        except Exception:
            return False
        if res.status != "ok":
            return False
        for r, g in zip(res.ref[0], res.got[0]):
            cls = diffmod.compare(r, g, "full")
            if cls is not None and bucket_of(text, case.get("cls", {}), r, g, cls, case.get("lenient", False)) == bucket:
                return True
        return False
    return bucket, e2util.reduce_ast(case["src"], pred, budget=10)


def run(ctx):
    nmods = 1 if ctx.quick else 8
    ctx.pmap(_shard, [(ctx.seed, s, nmods) for s in range(8 if ctx.quick else 16)])
    findings = harness.load_findings()
    firsts = {}
    for bucket, case, what in ctx.violations:
        if "|" in bucket and bucket not in firsts and len(firsts) < 2 \
                and harness.match_finding(PID, bucket, case, findings) is None:
            firsts[bucket] = case
    jobs = [(b, c, ctx.work) for b, c in firsts.items()]
    smalls = dict(ctx.pmap(_reduce_one, jobs)) if jobs else {}
    out, done = [], set()
    for bucket, case, what in ctx.violations:
        if bucket in smalls and bucket not in done:
            done.add(bucket)
            case = dict(case, src=smalls[bucket])
        out.append((bucket, case, what))
    ctx.violations = out
    ctx.rule = ("Hypothesis-seeded control-flow skeletons (depth <= 3, <= ~16 statements) over 2-4 locals + closure cell / loop target / except-as / "
                "with-as / match capture / global names, statements assign/del/read (88% of reads wrapped in try/except NameError, the rest propagate), "
                "<= 6 selector bits, ALL 2^b inputs executed; 8 functions per module, 8 modules in the quick tier; even shards default configuration, odd shards lenient "
                "(Options.error_on_uninitialized = error_on_unknown_names = False); oracle = same source under CPython (marker, value or "
                "(error type, variable name) per access, final outcome); programs rejected in the default configuration are checked against CPython "
                "(every execution reaching the rejected access must fail there). non-trivial = the program has an access that is bound on one input and "
                "unbound on another, or an unbound access in a program with del; distinct by (source, input, configuration)")
    ctx.assumptions = ["CPython 3.12 is the reference", "exception message texts are not compared (type + variable name are)"]


def replay(ctx, case):
    if not case.get("exprs"):
        return True, "build-level case (no calls)"
    res = _run_case(case, os.path.join(ctx.work, "c21replay"))
    if res.status != "ok":
        return True, "build status %s: %s" % (res.status, str(res.detail)[:300])
    for e, r, g in zip(case["exprs"], res.ref[0], res.got[0]):
        c = diffmod.compare(r, g, "full")
        if c is not None:
            return True, "%s: %s: CPython %s vs compiled %s" % (e, bucket_of(case["src"], case.get("cls", {}), r, g, c, case.get("lenient", False)),
                                                               diffmod.json_short(r, 600), diffmod.json_short(g, 600))
    return False, "outcomes agree"
