"""C33 - Python <-> C/C++ value conversions round-trip or raise (DESIGN §4 C33, engine E3).

Round-trip kernels `def k(obj): cdef T v = obj; return v` for structs / unions (from dicts), C arrays, char* under
four c_string_type / c_string_encoding settings, std::string and libcpp containers, driven with type-directed
Hypothesis values (valid nested values and invalid variants at every position) and judged inside the runner by the
model of the documented mapping in vlib/convmodel.py.
"""
import ast
import json
import os

from vlib import convmodel as cm
from vlib import cybuild, harness, hyp, runner, tree
from vlib.gen import convtypes as ct

PID = "C33"
LEVEL = "exploration"
META = {
    "technique": "typed kernel tables with a model oracle: round-trip conversion kernels for structs, unions, C arrays, C strings under six string directive settings, std::string and nested libcpp containers, fed type-directed Hypothesis values (valid, and one defect at a drawn position) and compared with a Python model of the documented mapping",
    "level_text": "Exploration: ~47 conversion targets in 6 C and 2 C++ modules (struct with nested struct and 1-/2-dim array members, union, int[4], double[2][3], array of structs, char* / const char* / const unsigned char* with c_string_type in {bytes, str, bytearray} and c_string_encoding in {none, ascii, default, UTF-8, iso8859-1}, std::string, vector / list / set / unordered_set / map / unordered_map / pair / complex and nestings of them, std::string <-> str). Each gets a few hundred generated values per run: valid ones (lists, tuples, generators, sets, dicts, bytearrays, empty containers, NUL bytes, non-ASCII text, boundary integers) and invalid ones with exactly one defect at a drawn position (wrong element type, out-of-range integer, missing / misspelled key, wrong length, non-iterable, iterator raising midway, undecodable / unencodable text). The model predicts the converted value or the set of admissible exception classes. Sampling, no proof.",
    "level_note": "The model is the oracle: it encodes the documented mapping (language_basics.rst conversion table, wrapping_CPlusPlus.rst standard library table) plus first-failure order of element conversions. Admissible exception classes per defect: TypeError / ValueError / OverflowError per the statement; IndexError additionally for a wrong sequence length of a C array and AttributeError for a non-mapping given to a C++ map (what the converters raise; the statement does not list these input classes); Unicode errors for text. Mappings with extra unknown keys are executed but not judged. Float-to-integer conversion is left to C05.",
}

MODEL = os.path.abspath(cm.__file__)
if MODEL.endswith(".pyc"):
    MODEL = MODEL[:-1]


def _build(arg):
    mod, work = arg
    tree.activate_view()
    so = cybuild.build(mod["src"], mod["name"], os.path.join(work, "c33", mod["name"]), ext=".pyx", cplus=mod["cplus"],
                       directives=mod["directives"])
    return {"name": mod["name"], "so": so}


def _draw(arg):
    """Draw and encode the values of one kernel (pure Python; spread over workers)."""
    modname, kname, T, label, n, seed = arg
    vals = hyp.draw_many(ct.values(T), n + 1, seed, "c33", label)[1:]
    out = []
    seen = set()
    for v in vals:
        e = cm.enc(v)
        key = json.dumps(e, sort_keys=True)
        if key not in seen:
            seen.add(key)
            out.append(e)
    return (modname, kname, out)


def run_jobs(so, name, jobs, case_timeout=120):
    cases = [{"expr": "convmodel.run(M, %r)" % json.dumps([j])} for j in jobs]
    imp, outs = runner.run_cases("so", so, name, cases, support=(runner.VSUPPORT, MODEL), case_timeout=case_timeout,
                                 timeout=case_timeout * 3 + 60, max_restarts=len(cases) + 3)
    if imp[0] != "ok":
        raise RuntimeError("C33 module %s failed to import: %r" % (name, imp))
    res = []
    for o in outs:
        if o[0] == "ok" and o[1][0] == "str":
            res.append(json.loads(ast.literal_eval(o[1][1]))[0])
        elif o[0] == "crash":
            res.append(("crash", o[1], (o[2] if len(o) > 2 else "")[-300:]))
        elif o[0] in ("timeout", "notrun"):
            res.append((o[0],))
        else:
            res.append(("error", json.dumps(o)[:1500]))
    return res


def _replay_dict(mod, job, value):
    return {"module": "c33r", "cplus": mod["cplus"], "directives": mod["directives"], "src": ct.single_source(mod, job["k"]),
            "k": job["k"], "T": job["T"], "label": job["label"], "value": value}


def _record(part, mod, job, res):
    if isinstance(res, tuple):
        if res[0] == "crash":
            if len(job["values"]) == 1:
                part.evaluations += 1
                part.count("crashes")
                v = job["values"][0]
                part.violation("%s|crash:%s" % (job["label"], res[1]), _replay_dict(mod, job, v),
                               "%s(%r) killed the process with %s %s" % (job["k"], cm.dec(v, live=False), res[1], res[2][-200:]))
                return None
            return "split"
        if res[0] in ("timeout", "notrun"):
            part.count("timeouts")
            return None
        raise RuntimeError("C33 driver error in %s: %s" % (job["label"], res[1]))
    part.evaluations += res["n"]
    part.counters["nt_exact"] += res["nt"]
    part.counters["either_not_judged"] += res["either"]
    part.classes["kernel:" + job["label"]] += res["n"]
    for cl, n in res["cls"].items():
        part.classes[cl] += n
    for k, ev in res["ntkeys"]:
        part.evaluations -= 1
        part.case([job["label"], ev], True, None, sample={"kernel": job["label"], "type": job["T"], "value": repr(cm.dec(ev, live=False))[:300]})
    for bucket, case, what in res["bad"]:
        part.violation(bucket, _replay_dict(mod, job, case["value"]), what)
    part.counters["misjudged_inputs"] += res["nbad"]
    return None


def _drive(arg):
    mod, so, jobs = arg
    tree.activate_view()
    part = harness.Part()
    results = run_jobs(so, mod["name"], jobs)
    for job, res in zip(jobs, results):
        if _record(part, mod, job, res) == "split":
            singles = [dict(job, values=[v]) for v in job["values"]]
            for sj, sr in zip(singles, run_jobs(so, mod["name"], singles, case_timeout=30)):
                _record(part, mod, sj, sr)
    return part


def run(ctx):
    mods = ct.modules()
    n = 220 if ctx.quick else 4000
    built = ctx.pmap(_build, [(m, ctx.work) for m in sorted(mods, key=lambda m: not m["cplus"])])
    sos = {b["name"]: b["so"] for b in built}
    draws = ctx.pmap(_draw, [(m["name"], k, T, label, n, ctx.seed) for m in mods for k, T, label in m["kernels"]])
    vals = {(mn, k): v for mn, k, v in draws}
    tasks = []
    nk = 0
    for m in mods:
        jobs = []
        for k, T, label in m["kernels"]:
            nk += 1
            jobs.append({"k": k, "T": T, "label": label, "values": vals[(m["name"], k)], "maxbad": 12, "maxnt": 6})
        small = {kk: vv for kk, vv in m.items() if kk != "src"}
        small["src"] = None
        nb = max(1, min(len(jobs), 4 if ctx.quick else 8))
        for c in range(nb):
            tasks.append((m, sos[m["name"]], jobs[c::nb]))
    ctx.pmap(_drive, tasks)
    ctx.counters["kernels"] = nk
    ctx.extra["distinct_nontrivial_exact"] = int(ctx.counters.get("nt_exact", 0))
    ctx.rule = ("round-trip kernels `cdef T v = obj; return v` for ~47 targets (structs / union / C arrays / char* in 6 C modules "
                "with 6 string directive settings; std::string and nested libcpp containers in 2 C++ modules); per kernel "
                "Hypothesis type-directed values: 2/3 valid (list / tuple / generator / set / dict / bytearray forms, empty "
                "containers, NUL and non-ASCII bytes / text, boundary integers, inf / -0.0), 1/3 with one defect at a drawn "
                "position (wrong type, out of range, missing / misspelled key, wrong length, non-iterable, iterator raising "
                "midway, undecodable bytes). oracle: convmodel.conv (documented mapping + first-failure order) -> equal "
                "canonical value (exact types, float bits) or an exception class from the admissible set. non-trivial = "
                "container nesting >= 2, empty container, NUL / non-ASCII content, or an invalid value; distinct by "
                "(kernel, encoded value). distinct_nontrivial is a bounded hashed sample; coverage.distinct_nontrivial_exact "
                "is the exact count (values are de-duplicated per kernel)")
    ctx.assumptions = ["vlib/convmodel.py is the reference for the documented Python <-> C/C++ mapping",
                       "admissible exception classes: TypeError / ValueError / OverflowError; IndexError for a wrong-length sequence "
                       "given to a C array and AttributeError for a non-mapping given to a C++ map (neither input class is listed "
                       "in the statement); UnicodeError family for text",
                       "mappings with extra unknown keys (ignored for structs, ValueError for unions) are executed, not judged",
                       "float -> C integer conversion is not generated (C05)", "set / map element values exclude NaN"]


_cache = {}


def replay(ctx, case):
    tree.activate_view()
    key = cybuild.sha12(case["src"] + json.dumps(case["directives"], sort_keys=True) + str(case["cplus"]))
    if key not in _cache:
        _cache[key] = cybuild.build(case["src"], case["module"], os.path.join(ctx.work, "c33replay", key), ext=".pyx",
                                    cplus=case["cplus"], directives=case["directives"])
    job = {"k": case["k"], "T": case["T"], "label": case["label"], "values": [case["value"]]}
    res = run_jobs(_cache[key], case["module"], [job], case_timeout=30)[0]
    if isinstance(res, tuple):
        if res[0] == "crash":
            return True, "killed the process with %s" % res[1]
        return False, "inconclusive: %r" % (res,)
    if res["bad"]:
        return True, res["bad"][0][2]
    return False, "agrees with the model (n=%d, not judged=%d)" % (res["n"], res["either"])
