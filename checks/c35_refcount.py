"""C35 - reference counts stay balanced on every path incl. errors (DESIGN §4 C35, engine E6: fault enumeration)."""
import os
import re

from hypothesis import strategies as st

from vlib import cybuild, diffmod, harness, hyp, runner, tree
from vlib.gen import faultprog, pyprog

PID = "C35"
LEVEL = "fault_enumeration"
META = {
    "technique": "fault enumeration over generated programs: the k-th fallible special-method call raises, for every k; oracle = CPython outcome + live-object balance + reference nanny",
    "level_text": "Fault enumeration: generated pure-Python functions (C01's generator restricted to int/list/tuple/dict parameters) are called on TRACKED harness objects whose every special method (arithmetic, comparison, hash, bool, index, iter/next, getitem, contains, call, enter/exit, format) is a failure point; after a fault-free run counts N such points, the call is repeated for every k<=N (evenly thinned to 40 when N>40) with the k-th point raising Injected(k).  Each run is compared with CPython (same outcome, same LOG), the number of live tracked objects must return to the reference's value after gc.collect(), no tracked object may be used after it was finalised, and the module is built with CYTHON_REFNANNY=1 against a reference nanny built from the working tree, whose report must be empty.",
    "level_note": "Failure points are the special methods of harness objects (not allocation failures inside CPython); thinning beyond 40 points per call is reported; refnanny is the working tree's own checker.",
}

FSUP = os.path.join(os.path.dirname(os.path.abspath(runner.__file__)), "faultsupport.py")
SETUP = '''
import faultsupport as F
from runner_canon import canon as _canon

def FR(thunk):
    return F.faultrun(M, thunk, _canon)
'''

ARGS = {
    "i": ["F.T(0)", "F.T(1)", "F.T(3)", "F.T(-2)", "F.T(7)", "F.T(2**40)", "F.T(255)"],
    "L": ["[]", "[F.T(1)]", "[F.T(3), F.T(1), F.T(2)]", "[F.T(0), F.T(-1), 5]"],
    "T": ["()", "(F.T(1),)", "(F.T(1), F.T(2))", "(F.T(3), 2, F.T(1))"],
    "D": ["{}", "{'a': F.T(1)}", "{'a': F.T(1), 'b': F.T(-2), 'x': 0}"],
    "S": ["set()", "{F.T(1)}", "{F.T(1), F.T(2), F.T(3)}"],
    "b": ["True", "False", "F.T(1)", "F.T(0)"],
    "s": ["'abc'", "''", "'a b'"],
    "f": ["1.5", "0.0", "F.T(2.5)"],
    "y": ["b'ab'"],
}


def _build_refnanny(outdir):
    view = os.environ["CYVERIF_VIEW"]
    src = open(os.path.join(view, "Cython", "Runtime", "refnanny.pyx")).read()
    so = cybuild.build(src, "refnanny", os.path.join(outdir, "refnanny_build"), ext=".pyx")
    return os.path.dirname(so)


def _shard(arg):
    seed, shard, K, nannydir = arg
    tree.activate_view()
    part = harness.Part()
    outdir = os.path.join(tree.workdir(), "c35", "s%d" % shard)
    raw = hyp.draw_many(faultprog.fault_item("UID"), K + 1, seed, "c35", shard)[1:]
    items = []
    pools = [ARGS["i"], ARGS["i"] + ARGS["L"][1:] + ARGS["T"][1:], ARGS["i"] + ARGS["D"][1:] + ["None", "5", "'s'"]]
    for i, it in enumerate(raw):
        uid = "%d_%d" % (shard, i)
        src = it["src"].replace("UID", uid)
        try:
            compile(src, "<gen>", "exec")
        except SyntaxError:
            part.count("generator_invalid")
            continue
        calls = []
        for j in range(2):
            args = [pool[hyp.derive(seed, "c35a", shard, i, j, n) % len(pool)] for n, pool in enumerate(pools)]
            calls.append("FR(lambda: M.f_%s(%s))" % (uid, ", ".join(args)))
        items.append({"src": src, "cases": [{"expr": c} for c in calls], "meta": {"features": it["features"]}})
    name = "c35m_%d" % shard
    good = []
    # filter items Cython rejects (documented rejections) one by one, cheaply
    src_all = diffmod.render(items, pyprog.HEADER)
    d = os.path.join(outdir, name)
    try:
        so = cybuild.build(src_all, name, d, defines=["CYTHON_REFNANNY=1"])
        good = items
    except cybuild.CythonError:
        for j, it in enumerate(items):
            try:
                p = os.path.join(outdir, "probe")
                os.makedirs(p, exist_ok=True)
                pp = os.path.join(p, "p%d.py" % j)
                open(pp, "w").write(diffmod.render([it], pyprog.HEADER))
                cybuild.cython_compile(pp)
                good.append(it)
            except cybuild.CythonError:
                part.count("cython_rejected_items")
        if not good:
            return part
        src_all = diffmod.render(good, pyprog.HEADER)
        so = cybuild.build(src_all, name + "g", d, defines=["CYTHON_REFNANNY=1"])
        name = name + "g"
    cases = diffmod.flat_cases(good)
    here = os.path.dirname(FSUP)
    imp_c, got = runner.run_cases("so", so, name, cases, setup=SETUP, syspath=[nannydir, here], support=(runner.VSUPPORT,),
                                  case_timeout=120, timeout=1200)
    imp_r, ref = runner.run_cases("py", os.path.join(d, name + ".py"), name, cases, setup=SETUP, syspath=[here],
                                  support=(runner.VSUPPORT,), case_timeout=120, timeout=1200)
    if imp_c[0] != "ok" or imp_r[0] != "ok":
        part.violation("import", {"src": src_all[:2000], "exprs": []}, "import outcome ref=%s got=%s" % (imp_r, imp_c))
        return part
    gi = diffmod.unflat(good, got)
    ri = diffmod.unflat(good, ref)
    for it, refs, gots in zip(good, ri, gi):
        for c, r, g in zip(it["cases"], refs, gots):
            case = {"header": pyprog.HEADER, "src": it["src"], "exprs": [c["expr"]]}
            if g[0] == "crash":
                part.violation("crash:" + str(g[1]), case, "%s: runner died (%s): %s" % (c["expr"], g[1], g[2][-600:]))
                continue
            if r[0] != "ok" or g[0] != "ok":
                part.count("driver_error_or_timeout")
                continue
            rr, gr = _runs(r), _runs(g)
            if rr is None or gr is None:
                part.count("undecodable")
                continue
            part.count("fault_points_total", max(0, len(gr) - 1))
            for (rk, rout, rfired, rdelta, rdead, rnanny, rlog), (gk, gout, gfired, gdelta, gdead, gnanny, glog) in zip(rr, gr):
                nt = bool(gfired) and gk != "-1"
                part.case([it["src"], c["expr"], gk], nt, ["fault:fired" if gfired else "fault:none", "outcome:" + str(gout[1][0][1] if gout else "?")]
                          + (["feat:" + f for f in it["meta"]["features"]] if gk == "-1" else []),
                          sample={"src": it["src"][:700], "call": c["expr"], "k": gk, "compiled": diffmod.json_short(gout, 160),
                                  "cpython": diffmod.json_short(rout, 160)})
                kcase = dict(case, k=gk)
                if rk != gk:
                    part.count("k_misaligned")
                    break
                if (rout != gout or rlog != glog) and not _injected_related(rout, gout):
                    # both fail with different ordinary exceptions / values: a behavioural divergence that belongs to
                    # C01/C13/C22, not to reference counting -> counted, and later k of this call are not judged
                    part.count("non_refcount_divergence_calls")
                    break
                if rout != gout or rlog != glog:
                    part.violation("outcome-diff", kcase, "%s k=%s: CPython %s vs compiled %s" % (c["expr"], gk, diffmod.json_short(rout), diffmod.json_short(gout)))
                    break   # later k are shifted once outcomes differ
                if gdelta != rdelta:
                    part.violation("leak" if _num(gdelta) > _num(rdelta) else "overfree", kcase,
                                   "%s k=%s: live tracked objects after the call: compiled %s vs CPython %s" % (c["expr"], gk, gdelta, rdelta))
                if _num(gdead) > 0:
                    part.violation("use-after-finalise", kcase, "%s k=%s: tracked object used after __del__" % (c["expr"], gk))
                if gnanny and gnanny[0] == "str" and len(gnanny[1]) > 2:
                    part.violation("refnanny", kcase, "%s k=%s: refnanny reports %s" % (c["expr"], gk, gnanny[1][:500]))
    return part


def _injected_related(rout, gout):
    """True if the difference involves the injected fault (propagated on one side only / different k) or one
    side returned while the other raised."""
    txt = repr(rout) + repr(gout)
    if "Injected" in txt:
        return True
    try:
        return rout[1][0] != gout[1][0]      # 'ok' vs 'exc'
    except Exception:
        return True


def _num(c):
    try:
        return int(c[1])
    except Exception:
        return 0


def _runs(o):
    """decode canon of faultrun() result -> list of run tuples (canon pieces)."""
    try:
        d = dict((k[1], v) for k, v in o[1][1])
        runs = d["'runs'"][1]
        out = []
        for r in runs:
            f = r[1]
            out.append((f[0][1], f[1], f[2] == ["bool", "True"], f[3], f[4], f[5], f[6]))
        return out
    except Exception:
        return None


def _guess_kinds(expr, n):
    m = re.match(r"M\.\w+\((.*)\)$", expr)
    inner = m.group(1) if m else ""
    parts = []
    depth = 0
    cur = ""
    for ch in inner:
        if ch in "([{":
            depth += 1
        elif ch in ")]}":
            depth -= 1
        if ch == "," and depth == 0:
            parts.append(cur.strip())
            cur = ""
        else:
            cur += ch
    if cur.strip():
        parts.append(cur.strip())
    kinds = []
    for p in parts[:n]:
        if p.startswith("["):
            kinds.append("L")
        elif p.startswith("("):
            kinds.append("T")
        elif p.startswith("{") and ":" in p or p == "{}":
            kinds.append("D")
        elif p.startswith("{") or p.startswith("set("):
            kinds.append("S")
        elif p.startswith(("'", '"')):
            kinds.append("s")
        elif p.startswith("b'"):
            kinds.append("y")
        elif p in ("True", "False"):
            kinds.append("b")
        elif "." in p and p.replace(".", "").replace("-", "").isdigit() or p.startswith("float"):
            kinds.append("f")
        else:
            kinds.append("i")
    while len(kinds) < n:
        kinds.append("i")
    return kinds


def run(ctx):
    nshards = 3 if ctx.quick else 24
    K = 12 if ctx.quick else 24
    nannydir = _build_refnanny(ctx.work)
    # canon for the runner-side driver
    here = os.path.dirname(FSUP)
    ctx.pmap(_shard, [(ctx.seed, s, K, nannydir) for s in range(nshards)])
    ctx.rule = ("generated functions over three tracked parameters (arithmetic, comparisons, containers, subscripts, calls with */** args, builtins, f-strings, comprehensions, unpacking, for/while/if/try/finally/with, closures with defaults, generators) x 2 tracked-argument tuples each; per call: one fault-free run "
                "(N fallible special-method calls) then one run per k in 1..N (thinned to 40) with the k-th raising Injected(k); oracles: "
                "outcome+LOG equal CPython's for the same k, live tracked-object count after gc equals CPython's, no use after finalisation, "
                "empty refnanny report (module built with -DCYTHON_REFNANNY=1). non-trivial = the injected fault fired (k<=N); distinct by "
                "(source, call, k)")
    ctx.assumptions = ["fault points = special methods of harness objects", "k runs beyond the first outcome difference of a call are not judged"]


def replay(ctx, case):
    tree.activate_view()
    nannydir = _build_refnanny(ctx.work)
    outdir = os.path.join(ctx.work, "c35replay")
    name = "c35r"
    items = [{"src": case["src"], "cases": [{"expr": e} for e in case["exprs"]]}]
    src_all = diffmod.render(items, case["header"])
    try:
        so = cybuild.build(src_all, name, os.path.join(outdir, name), defines=["CYTHON_REFNANNY=1"])
    except (cybuild.CythonError, cybuild.CCError) as e:
        return False, "does not build: %s" % str(e)[:200]
    here = os.path.dirname(FSUP)
    cases = items[0]["cases"]
    _, got = runner.run_cases("so", so, name, cases, setup=SETUP, syspath=[nannydir, here], case_timeout=120)
    _, ref = runner.run_cases("py", os.path.join(outdir, name, name + ".py"), name, cases, setup=SETUP, syspath=[here], case_timeout=120)
    for e, r, g in zip(case["exprs"], ref, got):
        if g[0] == "crash":
            return True, "%s: crash %s" % (e, g[1])
        rr, gr = _runs(r), _runs(g)
        if rr is None or gr is None:
            continue
        for a, b in zip(rr, gr):
            if a[1] != b[1] or a[6] != b[6]:
                return True, "%s k=%s outcome: CPython %s vs compiled %s" % (e, b[0], diffmod.json_short(a[1]), diffmod.json_short(b[1]))
            if a[3] != b[3]:
                return True, "%s k=%s live objects: CPython %s vs compiled %s" % (e, b[0], a[3], b[3])
            if _num(b[4]) > 0:
                return True, "%s k=%s use after finalise" % (e, b[0])
            if b[5] and b[5][0] == "str" and len(b[5][1]) > 2:
                return True, "%s k=%s refnanny: %s" % (e, b[0], b[5][1][:300])
    return False, "balanced"
