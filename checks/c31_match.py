"""C31 - match statements behave like CPython (DESIGN §4 C31, engine E2)."""
import os

from vlib import cybuild, diffmod, harness, tree
from vlib.gen import matchgen

PID = "C31"
LEVEL = "exploration"
META = {
    "technique": "property-based differential testing: grammar-generated match statements x generated subjects, compiled by Cython vs the same source under CPython 3.12",
    "level_text": "Exploration: Hypothesis-generated match statements (<=4 cases, pattern nesting <=3; literals incl. negative/complex/bytes/None/True, captures, wildcards, dotted value patterns, sequence patterns with stars at any position, mapping patterns with **rest, class patterns positional/keyword/builtin self-matching/invalid __match_args__, or-patterns with consistent bindings, as-patterns, guards logging their calls) are batched into modules, compiled from the working tree and driven with subjects built from the patterns (matching examples in list/tuple/deque/array/range/custom Sequence/registered virtual Sequence/dict/defaultdict/ChainMap/OrderedDict/custom and virtual Mapping/dict and list subclasses) plus a pool of ~70 fixed subjects (str/bytes/bytearray, non-sequences with __getitem__, raising __len__/get, classes with wrong __match_args__, attribute-raising objects). A share of the functions types the subject (cython.int, cython.double, str, list, tuple, dict) to reach the specialised paths. Compared with CPython: selected case, values bound by the selected case, guard/subject-evaluation LOG, exception type. Thousands of (statement, subject) pairs per run; no proof.",
    "level_note": "Trusts CPython 3.12 as the reference; names bound by cases that were not selected are not observed (PEP 634 leaves them unspecified); __len__/__getitem__/get call patterns are not compared; statements Cython rejects at compile time are counted, not judged (C43).",
}
K = 28


def case_bucket(cls, it, r, g):
    def sel(o):
        if o[0] == "ok" and o[1][0] == "tuple" and o[1][1]:
            try:
                return int(o[1][1][0][1])
            except Exception:
                return None
        return None
    shapes = it["meta"]["shapes"]
    a, b = sel(r), sel(g)

    def sh(i):
        if i is None:
            return "-"
        return "nomatch" if i == 0 else shapes[i - 1]
    typed = it["meta"]["typed"] or "object"
    if g[0] == "crash":
        return "%s|subject:%s|hazard=%s" % (cls, typed, ",".join(it["meta"].get("hazards", [])) or "-")
    if g[0] == "exc" and r[0] != "exc":
        return "%s|subject:%s|ref=%s|got=%s:%s" % (cls, typed, sh(a), g[1], exc_text(g))
    if r[0] == "exc":
        return "%s|subject:%s|ref=%s|got=%s" % (cls, typed, r[1], sh(b) if g[0] == "ok" else g[1] if g[0] == "exc" else g[0])
    return "%s|subject:%s|ref=%s|got=%s" % (cls, typed, sh(a), sh(b) if g[0] == "ok" else (g[1] if len(g) > 1 else g[0]))


def exc_text(o):
    """normalised message of an exception outcome (class names -> C, digits -> N, quoted names -> '_')"""
    import re
    try:
        msg = o[2][1][0][1]
    except Exception:
        return "?"
    msg = msg.strip("'\"")
    msg = re.sub(r"\b[A-Za-z_][A-Za-z_0-9]*\(\)", "C()", msg)
    msg = re.sub(r"\d+", "N", msg)
    msg = re.sub(r"\\?'[^']*\\?'", "'_'", msg)
    return msg[:70]


def subject_class(sx):
    for pre, name in (("M.", None), ("collections.", None), ("array.", "array"), ("range", "range"), ("[", "list"), ("(", "tuple"),
                      ("{", "dict-or-set"), ("'", "str"), ("b'", "bytes"), ("bytearray", "bytearray")):
        if sx.startswith(pre):
            if name:
                return name
            return sx.split("(")[0]
    return "scalar"


def _shard(arg):
    seed, shard, nmods, depth, nsubj = arg
    tree.activate_view()
    part = harness.Part()
    outdir = os.path.join(tree.workdir(), "c31", "s%d" % shard)
    for m in range(nmods):
        items = matchgen.draw_items(K, seed, ("c31", shard, m), "%d_%d" % (shard, m), max_depth=depth, nsubj=nsubj)
        name = "c31m_%d_%d" % (shard, m)
        for sub, res in diffmod.run_batch_isolating(items, name, outdir, header=matchgen.HEADER, setup=matchgen.SETUP):
            if res.status == "cyerror":
                part.count("cython_rejected_items", len(sub))
                for msg in diffmod.cy_error_messages(res.detail)[:1] or [str(res.detail)[:80]]:
                    part.classes["rejected:" + msg[:90]] += 1
                continue
            if res.status == "ccerror":
                part.count("c_compile_failed_items", len(sub))
                if len(sub) == 1:
                    part.violation("build:ccerror", _case(sub[0], sub[0]["cases"]),
                                   "generated C does not compile: %s" % str(res.detail)[-600:])
                continue
            if res.status == "import-diff":
                part.violation("import-diff", {"header": matchgen.HEADER, "setup": matchgen.SETUP,
                                               "src": "\n\n".join(it["src"] for it in sub), "exprs": []},
                               "module import differs: %s" % res.detail)
                continue
            for it, refs, gots in zip(sub, res.ref, res.got):
                meta = it["meta"]
                nt = meta["depth"] >= 2 or bool(set(meta["kinds"]) & {"star", "maprest", "cls", "or"})
                for c, r, g in zip(it["cases"], refs, gots):
                    part.case([it["src"], c["subject"]], nt,
                              ["outcome:" + (r[0] if r[0] != "ok" else "case%s" % r[1][1][0][1]), "typed:%s" % meta["typed"],
                               "subject:" + subject_class(c["subject"])] + ["kind:" + k for k in meta["kinds"]],
                              sample={"src": it["src"], "call": c["expr"], "cpython": diffmod.json_short(r), "compiled": diffmod.json_short(g)})
                    if r[0] == "timeout" or g[0] == "timeout":
                        part.count("timeouts")
                    cls = diffmod.compare(r, g, "exctype")
                    if cls is not None:
                        part.violation(case_bucket(cls, it, r, g), _case(it, [c]),
                                       "%s on\n%s: CPython %s vs compiled %s" % (c["expr"], it["src"], diffmod.json_short(r), diffmod.json_short(g)))
    return part


def _case(it, cases):
    return {"header": matchgen.HEADER, "setup": matchgen.SETUP, "src": it["src"], "exprs": [c["expr"] for c in cases],
            "meta": it["meta"]}


def _warm_up(ctx):
    p = os.path.join(ctx.work, "c31warm", "warm.py")
    os.makedirs(os.path.dirname(p), exist_ok=True)
    with open(p, "w") as f:
        f.write("def f(s):\n    match s:\n        case [a, *b]:\n            return a\n    return 0\n")
    cybuild.cython_compile(p)


def run(ctx):
    _warm_up(ctx)
    nmods = 1 if ctx.quick else 10
    depth = 3
    nsubj = 12 if ctx.quick else 16
    ctx.pmap(_shard, [(ctx.seed, s, nmods, depth, nsubj) for s in range(16)])
    ctx.rule = ("Hypothesis match statements (1-4 cases, nesting<=3, full pattern grammar of vlib/gen/matchgen.py, guards G(k, result, *names) "
                "logging to LOG, every 6th statement evaluates the subject through a logging call, ~1/2 of the functions type the subject "
                "parameter), %d per module; <=%d subjects each: ~70%% built from one of the statement's patterns in a drawn container "
                "type, rest from a fixed pool of ~70 subjects; oracle = same source under CPython (returned (case index, bound values), "
                "LOG, exception type). non-trivial = pattern nesting>=2 or contains star/mapping-rest/class/or; distinct by (source, subject)"
                % (K, nsubj))
    ctx.assumptions = ["CPython 3.12 is the reference semantics", "bindings of non-selected cases are unobserved (implementation-defined)",
                       "typed subjects only receive values of the declared type"]


def replay(ctx, case):
    items = [{"src": case["src"], "cases": [{"expr": e} for e in case["exprs"]]}]
    res = diffmod.run_batch(items, "c31replay", os.path.join(ctx.work, "c31replay", cybuild.sha12(case["src"] + repr(case["exprs"]))),
                            header=case["header"], setup=case.get("setup"))
    if res.status != "ok":
        return True, "build status %s: %s" % (res.status, str(res.detail)[:300])
    for e, r, g in zip(case["exprs"], res.ref[0], res.got[0]):
        c = diffmod.compare(r, g, "exctype")
        if c is not None:
            return True, "%s: %s: CPython %s vs compiled %s" % (e, c, diffmod.json_short(r), diffmod.json_short(g))
    return False, "outcomes agree"
