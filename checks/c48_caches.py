"""C48 - compilation caches never return stale results (DESIGN §4 C48, engine E7, metamorphic).

Histories of compilations of a small project (mod.pyx + cimported dep.pxd -> dep2.pxd, included inc.pxi,
dep3.pxd found through the include path) through ``cythonize(..., cache=dir)`` and through ``cython --cache``
(CYTHON_CACHE_DIR), each step changing exactly ONE input (or reverting to an earlier state), every step in a
fresh process image (fork of a parent that has imported the compiler but never compiled).  Oracle: the files
produced by the step are byte-identical to those of a cache-disabled compilation of the same inputs in a
fresh directory.  Second target: ``cython.inline`` histories (code text, argument types, language_level,
cython_compiler_directives, contents of cython_include_dirs) sharing a private lib_dir inside one process and
across processes; oracle = value returned by a forced build in an empty lib_dir.
"""
import json
import os

from hypothesis import strategies as st

from vlib import cachehist as ch
from vlib import harness, hyp, tree

PID = "C48"
LEVEL = "exploration"
META = {
    "technique": "stateful metamorphic testing: generated one-input-at-a-time compilation histories with the cache on vs fresh cache-disabled compilation of the same inputs",
    "level_text": "Exploration: seeded histories over a probe project vary one input per step (source edits, three kinds of dependency bytes, include path, language level, C/C++, module name, every module-level compiler directive of the tree, output-affecting CompilationOptions and module-level Options) through cythonize(cache=dir) and `cython --cache`; each step's output files are compared byte-for-byte with an uncached compilation of the same inputs; cython.inline histories compare returned values with forced rebuilds. A mismatch is attributed to the inputs that differ between the state whose output was returned and the requested state. Sampling of histories, one probe project; no proof.",
    "level_note": "Assumes compilation is deterministic for fixed inputs in a fixed relative layout (C42); steps run in forked children of a parent that imported Cython from the source view and built the scanner tables but never compiled; outputs are deleted between steps (the cache dir is the only carried state). np_pythran, gdb output, shared-utility options and the Cython version component of the key are not varied.",
}


# ----------------------------------------------------------------------------------------------
# generation

@st.composite
def plans(draw, entry_axes, nhist, length):
    """entry_axes: {entry: (core, rest)}; returns list of histories [{"entry", "states", "labels"}]."""
    out = []
    decks = {}
    for entry, (core, rest) in sorted(entry_axes.items()):
        if entry == "cli":      # the core changes are always dealt to cythonize; cli gets a mixed deck
            decks[entry] = list(draw(st.permutations(core + rest)))
        else:
            decks[entry] = list(draw(st.permutations(core))) + list(draw(st.permutations(rest)))
    n_by_entry = {"cythonize": 0, "cli": 0}
    for h in range(nhist):
        entry = "cli" if h % 4 == 3 else "cythonize"
        n_by_entry[entry] += 1
    pos = {"cythonize": 0, "cli": 0}
    for h in range(nhist):
        entry = "cli" if h % 4 == 3 else "cythonize"
        deck = decks[entry]
        core, rest = entry_axes[entry]
        state = ch.BASE_STATE
        if draw(st.integers(0, 2)) == 0:          # start away from the base state now and then
            state = ch.apply_axis(state, draw(st.sampled_from(rest)))
        states = [state]
        labels = ["start"]
        # deal the deck round-robin so that the core axes (front of the deck) are all used in every run
        mine = [deck[(pos[entry] + k * n_by_entry[entry]) % len(deck)] for k in range(length)]
        pos[entry] += 1
        for axis in draw(st.permutations(mine)):
            state = ch.apply_axis(states[-1], tuple(axis))
            states.append(state)
            labels.append(ch.axis_label(axis))
            if len(states) > 2 and draw(st.integers(0, 5)) == 0:
                back = draw(st.integers(0, len(states) - 3))
                states.append(states[back])
                labels.append("revert")
        out.append({"entry": entry, "states": states, "labels": labels})
    return out


def star_histories(entry, axes, per):
    out = []
    for i in range(0, len(axes), per):
        states, labels = [ch.BASE_STATE], ["start"]
        for axis in axes[i:i + per]:
            states.append(ch.apply_axis(ch.BASE_STATE, axis))
            labels.append(ch.axis_label(axis))
            states.append(ch.BASE_STATE)
            labels.append("revert")
        out.append({"entry": entry, "states": states[:-1], "labels": labels[:-1]})
    return out


@st.composite
def inline_plans(draw, nhist, length):
    out = []
    deck = list(draw(st.permutations(ch.INLINE_CORE))) + list(draw(st.permutations(ch.INLINE_REST)))
    for h in range(nhist):
        states = [ch.INLINE_BASE]
        labels = ["start"]
        for k in range(length):
            axis = deck[(h + k * nhist) % len(deck)]
            states.append(ch.inline_apply(states[-1], axis))
            labels.append(ch.axis_label(axis) if len(axis) == 3 else "%s=%s" % axis)
        if draw(st.booleans()):
            states.append(states[draw(st.integers(0, len(states) - 2))])
            labels.append("revert")
        split = draw(st.integers(1, len(states) - 1))     # calls [0, split) in process 1, the rest in process 2
        out.append({"entry": "inline", "states": states, "labels": labels, "split": split})
    return out


# ----------------------------------------------------------------------------------------------
# workers

def _ref_job(job):
    kind, sid, entry, state, work = job
    tree.activate_view()
    if kind == "inline":
        root = os.path.join(work, "c48", "iref", sid)
        os.makedirs(root, exist_ok=True)
        res = ch.inline_run([state], root, os.path.join(root, "lib"), "ref", force=True)
        return (sid, json.dumps(res[0]) if res[0][0] != "notrun" else None, res[0])
    res = ch.run_step(entry, state, os.path.join(work, "c48", "ref", sid, "p"), None)
    if res["status"] in ("ok", "error"):
        return (sid, ch.result_key(res), {"status": res["status"], "files": sorted(res["files"])})
    return (sid, None, {"status": res["status"], "log": res["log"][-400:]})


def _attribute(entry, states, i, got_key, refs, differ):
    """Which earlier state's (fresh) output did the cache hand out, and in which inputs does it differ?"""
    best = None
    for j in range(i - 1, -1, -1):
        sid = ch.state_id(entry, states[j])
        if refs.get(sid) == got_key and states[j] != states[i]:
            d = differ(states[j], states[i])
            if best is None or len(d) < len(best[1]):
                best = (j, d)
    return best


def _hist_job(job):
    hist, refs, work, hidx = job
    tree.activate_view()
    part = harness.Part()
    entry, states, labels = hist["entry"], hist["states"], hist["labels"]
    if entry == "inline":
        return _inline_hist(part, hist, refs, work, hidx)
    base = os.path.join(work, "c48", "h%d" % hidx)
    cache_dir = os.path.join(base, "cache")
    os.makedirs(cache_dir, exist_ok=True)
    for i, state in enumerate(states):
        res = ch.run_step(entry, state, os.path.join(base, "p"), cache_dir)
        sid = ch.state_id(entry, state)
        want = refs.get(sid)
        if want is None or res["status"] not in ("ok", "error"):
            part.count("inconclusive_steps")
            if res["status"] not in ("ok", "error", "timeout"):
                part.violation("child-died:%s" % entry, {"kind": entry, "states": states[:i + 1]},
                               "compilation child ended with %s: %s" % (res["status"], res["log"][-300:]))
            continue
        got = ch.result_key(res)
        prev_ref = refs.get(ch.state_id(entry, states[i - 1])) if i else None
        effective = i > 0 and prev_ref is not None and prev_ref != want
        cls = ["entry:" + entry, "step:" + labels[i], "cache-hit" if res["hit"] else "cache-miss",
               "effect:" + ("output-changes" if effective else "same-output-or-start")]
        if res["hit"] and got == want:
            cls.append("legit-hit:" + labels[i])
        part.case([entry, ch.canon(states[i - 1]) if i else None, ch.canon(state)], effective, cls,
                  sample={"entry": entry, "step": labels[i], "changed_from_previous": ch.diff_axes(states[i - 1], state) if i else [],
                          "cache_hit": res["hit"], "equals_fresh_compile": got == want,
                          "produced": sorted(res["files"]) or res["status"]})
        if got != want:
            att = _attribute(entry, states, i, got, refs, ch.diff_axes)
            case = {"kind": entry, "states": states[:i + 1]}
            hm = "hit" if res["hit"] else "miss"
            if att is not None:
                # the cache handed out what state j had stored: its key ignores every input in which j and i differ
                j, d = att
                case["minimal"] = [states[j], state]
                for axis in d:
                    part.violation("stale:%s:%s" % (entry, axis), case, (
                        "%s returned the output of an earlier compilation although %s differ%s (step %d '%s', cache %s): the cache "
                        "key does not depend on %s; a fresh uncached compilation of the same inputs produces different files" % (
                            entry, ", ".join(d), "s" if len(d) == 1 else "", i, labels[i], hm, axis)))
            else:
                part.violation("mismatch:%s:%s:%s" % (entry, labels[i], hm), case, (
                    "%s step %d '%s' (cache %s) produced %s, a fresh uncached compilation of the same inputs "
                    "produced %s; log: %s" % (entry, i, labels[i], hm, got[:200], want[:200], res["log"][-300:])))
    return part


def _inline_hist(part, hist, refs, work, hidx):
    states, labels, split = hist["states"], hist["labels"], hist["split"]
    root = os.path.join(work, "c48", "ih%d" % hidx)
    lib = os.path.join(root, "lib")
    os.makedirs(root, exist_ok=True)
    got = ch.inline_run(states[:split], root, lib, "a") + ch.inline_run(states[split:], root, lib, "b")
    for i, state in enumerate(states):
        want = refs.get(ch.state_id("inline", state))
        if want is None or got[i][0] == "notrun":
            part.count("inconclusive_steps")
            continue
        g = json.dumps(got[i])
        prev_ref = refs.get(ch.state_id("inline", states[i - 1])) if i else None
        effective = i > 0 and prev_ref is not None and prev_ref != want
        part.case(["inline", ch.canon(states[i - 1]) if i else None, ch.canon(state), i >= split], effective,
                  ["entry:inline", "step:inline:" + labels[i], "inline:" + ("new-process" if i >= split else "same-process"),
                   "effect:" + ("output-changes" if effective else "same-output-or-start")],
                  sample={"entry": "inline", "step": labels[i], "state": state, "returned": got[i], "fresh": json.loads(want)})
        if g != want:
            att = _attribute("inline", states, i, g, refs, ch.inline_diff)
            case = {"kind": "inline", "states": states[:i + 1], "split": min(split, i)}
            if att is not None:
                j, d = att
                case["minimal"] = [states[j], state]
                for axis in d:
                    part.violation("stale:inline:" + axis, case, (
                        "cython.inline returned %s (the result for an earlier call) although %s differ: the module key does "
                        "not depend on %s; a forced build in an empty lib_dir returns %s" % (g, ", ".join(d), axis, want)))
            else:
                part.violation("mismatch:inline:" + labels[i], case,
                               "cython.inline returned %s, a forced build in an empty lib_dir returns %s" % (g, want))
    return part


# ----------------------------------------------------------------------------------------------

def _entry_axes():
    dirs = ch.directive_axes()
    out = {}
    for entry in ("cythonize", "cli"):
        rest = [a for a in dirs + ch.OPTION_AXES + ch.GLOBAL_AXES if ch.allowed(entry, a)]
        out[entry] = (list(ch.CORE_AXES), rest)
    return out


def run(ctx):
    tree.activate_view()
    ch.preload()
    axes = _entry_axes()
    nhist, length, ninl, linl = (6, 5, 2, 3) if ctx.quick else (60, 8, 8, 5)
    if os.environ.get("VERIF_C48_SIZE"):        # development aid only
        nhist, length, ninl, linl = [int(x) for x in os.environ["VERIF_C48_SIZE"].split(",")]
    hists = hyp.draw_many(plans(axes, nhist, length), 2, ctx.seed, "c48", ctx.tier)[-1] if nhist else []
    inl = hyp.draw_many(inline_plans(ninl, linl), 2, ctx.seed, "c48i", ctx.tier)[-1] if ninl else []
    if not ctx.quick:
        for entry in ("cythonize", "cli"):
            core, rest = axes[entry]
            hists += star_histories(entry, core + rest, 8)
    # fixed histories: a state whose compilation FAILS, compiled twice in a row and again after a detour (a failed
    # compilation must never be answered from the cache as a success)
    bad = ch.apply_axis(ch.BASE_STATE, ("directives", "c_compile_guard", "MY_GUARD"))
    for entry in ("cythonize", "cli"):
        hists.append({"entry": entry, "states": [ch.BASE_STATE, bad, bad, ch.BASE_STATE, bad],
                      "labels": ["start", "directive:c_compile_guard", "repeat-failing", "revert", "revert-to-failing"]})
    allh = inl + hists
    # phase 1: fresh, cache-disabled reference compilation of every distinct state
    jobs = {}
    for h in allh:
        for s in h["states"]:
            sid = ch.state_id(h["entry"], s)
            jobs.setdefault(sid, ("inline" if h["entry"] == "inline" else "step", sid, h["entry"], s, ctx.work))
    ordered = sorted(jobs.values(), key=lambda j: (j[0] != "inline", j[1]))
    refs = {}
    for sid, key, info in ctx.pmap(_ref_job, ordered):
        refs[sid] = key
        if key is None:
            ctx.count("reference_inconclusive")
    ctx.counters["distinct_states"] = len(jobs)
    ctx.counters["reference_compile_errors"] = sum(1 for k in refs.values() if k == '["error"]')
    # phase 2: the histories with the cache on
    ctx.pmap(_hist_job, [(h, {ch.state_id(h["entry"], s): refs.get(ch.state_id(h["entry"], s)) for s in h["states"]},
                          ctx.work, i) for i, h in enumerate(allh)])
    ctx.extra["axes"] = {e: len(c) + len(r) for e, (c, r) in axes.items()}
    ctx.rule = ("Hypothesis-drawn histories (quick: %d of %d single-input steps + occasional reverts, 3/4 through cythonize(cache=dir), 1/4 "
                "through `cython --cache`; the deck of changes always contains all 12 core changes [4 source edits, dep.pxd, "
                "transitively cimported dep2.pxd, included .pxi, include path, language_level 2/3str, C++, module name] and is filled "
                "from the permuted list of every module-level directive of the tree, output-affecting CompilationOptions and "
                "module-level Options; thorough adds one toggle of every axis from the base state) plus %d cython.inline histories; "
                "oracle = byte equality with a fresh uncached compilation (inline: equal returned value). non-trivial = the step "
                "follows an earlier compilation into the same cache AND the fresh output of the new state differs from that of "
                "the previous state (so a stale hit is possible and visible); distinct by (entry, previous state, new state)"
                % (nhist, length, ninl))
    ctx.assumptions = ["compilation of fixed inputs in a fixed relative layout is deterministic (C42)",
                       "deleting the generated files between steps (fresh checkout, shared cache dir) is the usage modelled; "
                       "timestamps play no role because cythonize always finds the C file missing",
                       "module-level Cython.Compiler.Options set before cythonize()/on the cython command line count as "
                       "'output-affecting options' of the property statement"]


def replay(ctx, case):
    tree.activate_view()
    ch.preload()
    kind = case["kind"]
    root = os.path.join(ctx.work, "c48replay", ch.state_id(kind, case["states"][-1]))
    tried = []
    for name in ("minimal", "states"):
        states = case.get(name)
        if not states:
            continue
        sub = os.path.join(root, name)
        if kind == "inline":
            os.makedirs(sub, exist_ok=True)
            want = ch.inline_run([states[-1]], sub, os.path.join(sub, "reflib"), "ref", force=True)[0]
            split = 1 if name == "minimal" else max(1, case.get("split", 1))
            got = (ch.inline_run(states[:split], sub, os.path.join(sub, "lib"), "a") +
                   ch.inline_run(states[split:], sub, os.path.join(sub, "lib"), "b"))[-1]
            if "notrun" in (want[0], got[0]):
                tried.append("%s: inconclusive (%s)" % (name, (want if want[0] == "notrun" else got)[1][-200:]))
                continue
            if got != want:
                return True, "cython.inline returned %s for the last call of the %s history, forced fresh build returns %s" % (got, name, want)
            tried.append("%s: agrees with fresh build (%s)" % (name, got))
            continue
        want = ch.run_step(kind, states[-1], os.path.join(sub, "ref"), None)
        cache_dir = os.path.join(sub, "cache")
        os.makedirs(cache_dir, exist_ok=True)
        res = None
        for s in states:
            res = ch.run_step(kind, s, os.path.join(sub, "p"), cache_dir)
        if "timeout" in (want["status"], res["status"]):
            tried.append(name + ": timeout")
            continue
        if ch.result_key(res) != ch.result_key(want):
            return True, ("last step of the %s history (%d steps, cache %s) produced %s / %s, fresh uncached compilation produced %s / %s" % (
                name, len(states), "hit" if res["hit"] else "miss", res["status"], sorted(res["files"].items()),
                want["status"], sorted(want["files"].items())))
        tried.append("%s: equals fresh compilation" % name)
    return False, "; ".join(tried)
