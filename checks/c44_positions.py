"""C44 - tracebacks and code positions (DESIGN §4 C44).

Half 1 (E1): LineTable.build_line_table round-trips through CPython's own decoder
(code.replace(co_linetable=...).co_positions()).
Half 2 (E2): tracebacks of exceptions raised in compiled code name the same
(function, line) sequence as CPython for the same source  -> see _tb part below.
"""
import os

from hypothesis import strategies as st

from vlib import hyp, harness, tree

PID = "C44"
LEVEL = "exploration"
META = {
    "engine": "vlib",
    "technique": "property-based testing: round-trip of generated position lists through CPython's line-table decoder; differential tracebacks vs CPython",
    "level_text": "Exploration: tens of thousands of generated start-sorted position lists (all four table forms, boundary columns, multi-line spans) are encoded by LineTable.build_line_table from the working tree and decoded by CPython's own co_positions(); generated raising programs are compiled and their traceback (function, line) sequences compared with CPython running the same source. Sampling, not proof.",
    "level_note": "Trusts CPython 3.12's co_positions() as the table decoder and CPython's traceback as reference; compiled code runs in isolated runner subprocesses.",
}

COLS = [0, 1, 7, 8, 15, 16, 17, 63, 64, 79, 80, 81, 95, 96, 127, 128, 129, 255, 256, 1000, 4095, 4096, 70000]
DELTAS = [0, 0, 0, 1, 1, 2, 3, 4, 63, 64, 100, 4096, 70000]


@st.composite
def position_lists(draw, multiline):
    first = draw(st.sampled_from([1, 1, 2, 7, 100, 65536]))
    n = draw(st.integers(1, 40))
    line = first + draw(st.sampled_from([0, 0, 1, 2, 5]))
    out = []
    for _ in range(n):
        line += draw(st.sampled_from(DELTAS))
        sc = draw(st.one_of(st.sampled_from(COLS), st.integers(0, 200)))
        if multiline and draw(st.integers(0, 3)) == 0:
            span = draw(st.sampled_from([1, 1, 2, 3, 64, 100, 5000]))
            ec = draw(st.one_of(st.sampled_from(COLS), st.integers(0, 200)))
            out.append((line, line + span, sc, ec))
        else:
            width = draw(st.sampled_from([0, 1, 2, 7, 14, 15, 16, 17, 40, 63, 64, 127, 128, 1000]))
            out.append((line, line, sc, sc + width))
    return first, out


def _template_code():
    return (lambda: None).__code__


def decode(table, first, n):
    code = _template_code().replace(co_code=b"\x09\x00" * n, co_linetable=table.encode("latin1"),
                                    co_firstlineno=first)
    return list(code.co_positions())


def check_positions(first, positions):
    """Returns None if OK else (kind, message)."""
    from Cython.Compiler import LineTable
    try:
        table = LineTable.build_line_table(list(positions), first)
    except AssertionError as e:
        return "assert", "encoder raised AssertionError(%s)" % e
    except Exception as e:
        return "raise", "encoder raised %s: %s" % (type(e).__name__, e)
    try:
        got = decode(table, first, len(positions))
    except Exception as e:
        return "undecodable", "CPython decoder failed: %s: %s" % (type(e).__name__, e)
    want = [tuple(p) for p in positions]
    if got != want:
        for i, (g, w) in enumerate(zip(got, want)):
            if g != w:
                prev_multi = any(p[1] != p[0] for p in want[:i])
                kind = "after-multiline" if prev_multi else ("multiline-entry" if w[0] != w[1] else "singleline")
                return kind, "entry %d decodes to %r, recorded %r" % (i, g, w)
        return "length", "decoded %d entries for %d positions" % (len(got), len(want))
    # co_lines monotone starts
    return None


def nontrivial(positions, first):
    last = first
    for (sl, el, sc, ec) in positions:
        if el != sl or sl - last >= 3 or sc >= 80:
            return True
        last = sl
    return False


def classify(positions, first):
    cl = set()
    last = first
    for (sl, el, sc, ec) in positions:
        d = sl - last
        if el != sl:
            cl.add("enc:multiline")
        elif d == 0 and sc < 80 and 0 <= ec - sc < 16:
            cl.add("enc:short")
        elif 0 <= d < 3 and sc < 128 and ec < 128:
            cl.add("enc:oneline")
        else:
            cl.add("enc:long")
        last = sl
    return sorted(cl)


def _encoder_shard(arg):
    seed, shard, n, multiline = arg
    tree.activate_view()
    part = harness.Part()
    excluded = set()
    for attempt in range(4):
        def prop(ex):
            first, positions = ex
            r = check_positions(first, positions)
            part.case(["enc", first, positions], nontrivial(positions, first), classify(positions, first),
                      sample={"kind": "encoder", "first": first, "positions": positions[:6]})
            if r is not None and r[0] not in excluded:
                raise AssertionError(r[0])
        res = hyp.run_property(prop, position_lists(multiline), n, seed, "enc", shard, multiline, attempt)
        if res is None:
            break
        (first, positions), _ = res
        kind, msg = check_positions(first, positions)
        part.violation("encoder:" + kind, {"kind": "encoder", "first": first,
                                            "positions": [list(p) for p in positions]}, msg)
        excluded.add(kind)
    return part


def run(ctx):
    n = 1500 if ctx.quick else 40000
    shards = [(ctx.seed, i, n, i % 2 == 1) for i in range(16)]
    ctx.pmap(_encoder_shard, shards)
    ctx.rule = ("encoder: Hypothesis start-sorted position lists (<=40 entries; line deltas 0..70000, columns around "
                "8/16/80/128 boundaries, zero-width spans, half of the shards with multi-line spans) round-tripped "
                "through CPython's co_positions(); non-trivial = list has a multi-line span, a line delta >= 3 or a "
                "start column >= 80; distinct by (firstlineno, list)")
    ctx.assumptions = ["CPython's co_positions() decoder is the reference for the PEP 626/657 table format",
                       "columns/lines below 2**31 (the encoder declares C int)"]
    from checks import c44_tb
    c44_tb.run(ctx)


def replay(ctx, case):
    if case.get("kind") == "encoder":
        tree.activate_view()
        r = check_positions(case["first"], [tuple(p) for p in case["positions"]])
        return (r is not None), (r[1] if r else "round-trips")
    from checks import c44_tb
    return c44_tb.replay(ctx, case)
