"""C02 - object arithmetic with constant operands matches CPython (DESIGN §4 C02, engine E3 [+E4 in thorough])."""
import os
import re

from vlib import harness, kdiff, tree
from vlib.gen import numvals

PID = "C02"
LEVEL = "exploration"
META = {
    "technique": "typed kernel table (operator x constant x operand order x form) compiled once, driven with digit-boundary and "
                 "Hypothesis-drawn operands; differential oracle = the same kernel source executed by CPython on the same operand objects",
    "level_text": "Exploration: every kernel `x op c`, `c op x`, `x op= c`, comparison-as-value and comparison-as-condition for "
                  "13 operators and ~35 int/float constants (inside and just outside the optimised range), untyped and int-annotated, "
                  "plus non-constant `x op y` control kernels (object/int typed) is compiled from the working tree and called with "
                  "~450 operands (all PyLong digit boundaries, +-2**63, floats incl. signed zeros/inf/nan/subnormals, bools, "
                  "int/float subclasses with and without overridden dunders, Fraction/Decimal/complex/None/str/...). Result type, value "
                  "(floats by hex) and exception type+args are compared with CPython. The kernel table is enumerated completely; operands are "
                  "a fixed boundary list plus seeded random draws. Sampling of the operand space, not proof.",
    "level_note": "Trusts CPython 3.12 evaluating the identical source as reference; compiled and reference kernels run in one isolated "
                  "runner subprocess per module on the same operand objects. Default C macros only in the quick tier "
                  "(thorough adds -DCYTHON_USE_PYLONG_INTERNALS=0 and C++).",
}

ARITH = ["+", "-", "*", "/", "//", "%", "&", "|", "^"]
SHIFTS = ["<<", ">>"]
CMPS = ["==", "!="]
OPNAME = {"+": "add", "-": "sub", "*": "mul", "/": "truediv", "//": "floordiv", "%": "mod", "&": "and", "|": "or", "^": "xor",
          "<<": "lshift", ">>": "rshift", "==": "eq", "!=": "ne", "<": "lt", "<=": "le", ">": "gt", ">=": "ge"}

INT_CONSTS = [0, 1, -1, 2, -2, 3, -3, 7, -7, 10, 255, 256, -256, 2 ** 15 - 1, 2 ** 15, 2 ** 15 + 1, -(2 ** 15), 2 ** 29,
              2 ** 30 - 1, 2 ** 30, -(2 ** 30), -(2 ** 30) + 1,
              2 ** 30 + 1, -(2 ** 30) - 1, 2 ** 31, 2 ** 62]          # last four: outside the optimised range (controls)
TYPED_CONSTS = [0, 1, -1, 7, 255, 2 ** 15, 2 ** 30 - 1, 2 ** 30, -(2 ** 30), 2 ** 30 + 1]
FLOAT_CONSTS = ["0.0", "-0.0", "0.5", "1.0", "-1.5", "2.0", "0.1", "1e308", "9007199254740992.0", "-3.0", "1e400"]
FLOAT_OPS = ["+", "-", "*", "/", "//", "%"]
SHIFT_COUNTS = [0, 1, 2, 29, 30, 31, 32, 62, 63, 64]
CMP_INT_CONSTS = INT_CONSTS + [2 ** 45, -(2 ** 45), 2 ** 60 + 1, 2 ** 63 - 1, -(2 ** 63), 2 ** 64]
CMP_FLOAT_CONSTS = ["0.0", "-0.0", "0.5", "1.0", "2.0", "1073741824.0", "9007199254740992.0", "1e308", "-1.0"]


def const_src(c):
    return repr(c) if not isinstance(c, str) else c


def const_class(c, op):
    if isinstance(c, str):
        return "float"
    if op in SHIFTS:
        return "shift-opt" if 1 <= c <= 63 else "shift-ctl"
    if abs(c) > 2 ** 30:
        return "int-ctl"
    if c == 0:
        return "int-zero"
    return "int-opt"


def is_optimised(c, op, order):
    """Does Optimize.optimise_numeric_binop take the fast path for this constant/op/order?"""
    if isinstance(c, str):
        if op not in ("+", "-", "/", "%", "==", "!="):
            return False
        v = float(c)
        if op in ("/", "%") and order == "xc":
            return v != 0 and abs(v) <= 2 ** 53
        return True
    if op in SHIFTS:
        return order == "xc" and 1 <= c <= 63
    if abs(c) > 2 ** 30:
        return False
    if op in ("/", "//", "%") and order == "xc" and c == 0:
        return False
    return True


def make_kernels():
    """The complete kernel table. -> list of dict(name, src, op, order, form, c, cclass, dom, opt)."""
    ks = []

    def add(op, order, form, c, body, typed=False, dom=None):
        name = "k%d" % len(ks)
        arg = "x: int" if typed else "x"
        src = "def %s(%s):\n%s\n" % (name, arg, body)
        if dom is None:
            if typed:
                dom = "ints"
            elif op == "*" and not isinstance(c, str) and abs(c) > 1000:
                dom = "noseq"
            else:
                dom = "all"
        ks.append({"name": name, "src": src, "op": op, "order": order, "form": form, "c": const_src(c),
                   "cclass": const_class(c, op), "dom": dom, "opt": is_optimised(c, op, order), "typed": typed})

    for op in ARITH:
        for c in INT_CONSTS:
            cs = const_src(c)
            add(op, "xc", "expr", c, "    return x %s %s" % (op, cs))
            add(op, "cx", "expr", c, "    return %s %s x" % (cs, op))
            add(op, "xc", "inplace", c, "    x %s= %s\n    return x" % (op, cs))
            if c in TYPED_CONSTS:
                add(op, "xc", "t_expr", c, "    return x %s %s" % (op, cs), typed=True)
                add(op, "cx", "t_expr", c, "    return %s %s x" % (cs, op), typed=True)
                if op != "/":
                    add(op, "xc", "t_inplace", c, "    x %s= %s\n    return x" % (op, cs), typed=True)
    for op in FLOAT_OPS:
        for c in FLOAT_CONSTS:
            add(op, "xc", "expr", c, "    return x %s %s" % (op, c))
            add(op, "cx", "expr", c, "    return %s %s x" % (c, op))
            add(op, "xc", "inplace", c, "    x %s= %s\n    return x" % (op, c))
            if c in ("0.5", "2.0", "-0.0"):
                add(op, "xc", "t_expr", c, "    return x %s %s" % (op, c), typed=True)
                add(op, "cx", "t_expr", c, "    return %s %s x" % (c, op), typed=True)
    for op in SHIFTS:
        for c in SHIFT_COUNTS:
            add(op, "xc", "expr", c, "    return x %s %d" % (op, c))
            add(op, "xc", "inplace", c, "    x %s= %d\n    return x" % (op, c))
            add(op, "xc", "t_expr", c, "    return x %s %d" % (op, c), typed=True)
        for c in (1, 7, 2 ** 30, -5):
            add(op, "cx", "expr", c, "    return %d %s x" % (c, op), dom="shiftcount")
    for op in CMPS:
        for c in CMP_INT_CONSTS + CMP_FLOAT_CONSTS:
            cs = const_src(c)
            add(op, "xc", "cmpval", c, "    return x %s %s" % (op, cs))
            add(op, "cx", "cmpval", c, "    return %s %s x" % (cs, op))
            add(op, "xc", "cmpcond", c, "    if x %s %s:\n        return 1\n    return 0" % (op, cs))
            add(op, "cx", "cmpcond", c, "    return 1 if %s %s x else 0" % (cs, op))
            if isinstance(c, str) or c in TYPED_CONSTS or c in (2 ** 45, -(2 ** 63)):
                add(op, "xc", "t_cmpval", c, "    return x %s %s" % (op, cs), typed=True)
                add(op, "cx", "t_cmpcond", c, "    if %s %s x:\n        return 1\n    return 0" % (cs, op), typed=True)
    return ks


GEN_OPS = ARITH + SHIFTS + ["==", "!=", "<", "<=", ">", ">="]


def make_generic_kernels():
    """Non-constant control kernels `x op y` (PyNumberBinop / PyObjectCompare helpers)."""
    ks = []

    def add(op, form, tx, ty, body):
        name = "g%d" % len(ks)
        src = "def %s(%s, %s):\n%s\n" % (name, "x: int" if tx else "x", "y: int" if ty else "y", body)
        # an in-place operation on an int-annotated variable must produce an int again (typed-variable rule),
        # so the second operand is restricted to exact ints there
        dom = "pairs_%s%s" % ("i" if tx else "o", "i" if (ty or (tx and form == "inplace")) else "o")
        if op in SHIFTS:
            dom += "_shift"
        ks.append({"name": name, "src": src, "op": op, "order": "xy", "form": form + ("_%s%s" % ("i" if tx else "o", "i" if ty else "o")),
                   "c": "y", "cclass": "generic", "dom": dom, "opt": True, "typed": tx or ty})

    for op in GEN_OPS:
        for tx in (False, True):
            for ty in (False, True):
                if op in ARITH + SHIFTS:
                    add(op, "expr", tx, ty, "    return x %s y" % op)
                    if not (tx and op == "/"):
                        add(op, "inplace", tx, ty, "    x %s= y\n    return x" % op)
                else:
                    add(op, "cmpval", tx, ty, "    return x %s y" % op)
                    add(op, "cmpcond", tx, ty, "    if x %s y:\n        return 1\n    return 0" % op)
    return ks


PAIR_INTS = [0, 1, -1, 2, 5, -7, 63, 200, 255, 2 ** 15, 2 ** 30 - 1, 2 ** 30, -(2 ** 30), 2 ** 30 + 1, 2 ** 31, -(2 ** 31) - 1,
             2 ** 45, 2 ** 60 - 1, 2 ** 60, -(2 ** 60), 2 ** 60 + 1, 2 ** 62, 2 ** 63 - 1, 2 ** 63, -(2 ** 63), 2 ** 64 + 1, 2 ** 90,
             -(2 ** 90) + 1, 2 ** 53, 2 ** 53 + 1, -(2 ** 53) - 1, 2 ** 200]
PAIR_FLOATS = ["0.0", "-0.0", "float('inf')", "float('-inf')", "float('nan')", "0.5", "-1.5", "1.0", "2.0**30", "2.0**53",
               "2.0**53+2", "2.0**60", "-(2.0**60)", "2.0**63", "1e308", "5e-324", "1073741823.0", "-1073741825.0", "2.0**200"]
PAIR_OTHERS = [("True", {"bool"}), ("False", {"bool"}), ("S.IntSub(5)", {"intsub"}), ("S.IntSub(2**62)", {"intsub"}),
               ("S.FloatSub(1.5)", {"floatsub"}), ("S.IntOv(5)", {"intsub"}), ("S.FloatOv(2.5)", {"floatsub"}),
               ("Fraction(1, 3)", {"other"}), ("Decimal('1.5')", {"other"}), ("(1+2j)", {"other"}), ("None", {"other"}),
               ("'s'", {"other", "seq"}), ("(1, 2)", {"other", "seq"}), ("b'ab'", {"other", "seq"}), ("S.RAdd()", {"other"}),
               ("S.Plain()", {"other"})]


def build_inputs(values, generic_base):
    """values: list of (expr, tags). -> inputs dict of argument index tuples."""
    idx = range(len(values))
    tags = [t for _, t in values]
    inputs = {
        "all": [[i] for i in idx],
        "noseq": [[i] for i in idx if "seq" not in tags[i]],
        "ints": [[i] for i in idx if "int" in tags[i]],
        "shiftcount": [[i] for i in idx if "int" not in tags[i] or "small" in tags[i]],
    }
    pi = list(generic_base)
    def ok_pair(a, b, shift):
        ta, tb = tags[a], tags[b]
        if "seq" in ta and ("int" in tb and "small" not in tb):
            return False
        if "seq" in tb and ("int" in ta and "small" not in ta):
            return False
        if shift and "int" in tb and "small" not in tb:
            return False
        return True
    for tx in "oi":
        for ty in "oi":
            for shift in (False, True):
                name = "pairs_%s%s%s" % (tx, ty, "_shift" if shift else "")
                inputs[name] = [[a, b] for a in pi for b in pi
                                if (tx == "o" or "int" in tags[a]) and (ty == "o" or "int" in tags[b]) and ok_pair(a, b, shift)]
    return inputs


def all_values(seed, quick):
    vals = numvals.operand_values(seed, 60 if quick else 1500, 40 if quick else 800)
    exprs = [e for e, _ in vals]
    base = []
    for v in PAIR_INTS:
        e = numvals.int_expr(v)
        if e in exprs:
            base.append(exprs.index(e))
        else:
            vals.append((e, numvals.int_tags(v)))
            exprs.append(e)
            base.append(len(vals) - 1)
    for e in PAIR_FLOATS:
        if e in exprs:
            base.append(exprs.index(e))
        else:
            vals.append((e, {"float"}))
            exprs.append(e)
            base.append(len(vals) - 1)
    for e, t in PAIR_OTHERS:
        if e in exprs:
            base.append(exprs.index(e))
        else:
            vals.append((e, t))
            exprs.append(e)
            base.append(len(vals) - 1)
    return vals, base


def xclass(expr, tags):
    if "int" in tags:
        v = eval(expr)
        return "int%d%s" % (min(numvals.ndigits30(v), 5), "-" if v < 0 else ("0" if v == 0 else "+"))
    if "float" in tags:
        if "inf" in expr:
            return "float-inf"
        if "nan" in expr:
            return "float-nan"
        return "float"
    for t in ("bool", "intsub", "floatsub"):
        if t in tags:
            return t
    return "other:" + numvals.type_name(expr)


def mismatch_kind(want, got):
    we, ge = want.startswith("E:"), got.startswith("E:")
    if we and ge:
        wt, gt = want.split(":", 2)[1], got.split(":", 2)[1]
        if wt != gt:
            return "exctype:%s->%s" % (wt, gt)
        return "excmsg:%s" % wt
    if we:
        return "exc->ok:%s" % want.split(":", 2)[1]
    if ge:
        return "ok->exc:%s" % got.split(":", 2)[1]
    if want.split(":", 1)[0] != got.split(":", 1)[0]:
        return "type:%s->%s" % (want.split(":", 1)[0], got.split(":", 1)[0])
    return "value"


CONFIGS = {
    "default": {},
    "nointernals": {"defines": ["CYTHON_USE_PYLONG_INTERNALS=0"]},
    "cplus": {"cplus": True},
}


def _shard(arg):
    seed, shard, config, kernels, values, base, quick = arg
    tree.activate_view()
    part = harness.Part()
    cfg = CONFIGS[config]
    inputs = build_inputs(values, base)
    used = sorted(set(k["dom"] for k in kernels))
    spec = {"values": [e for e, _ in values], "inputs": {d: inputs[d] for d in used},
            "kernels": [{"name": k["name"], "inputs": k["dom"]} for k in kernels], "max_mismatch": 6}
    src = "".join(k["src"] + "\n" for k in kernels)
    name = "c02_%s_%d" % (config, shard)
    outdir = os.path.join(tree.workdir(), "c02")
    res = kdiff.run_table(src, name, outdir, spec, defines=cfg.get("defines"), cplus=cfg.get("cplus", False))
    if res.status != "ok":
        part.violation("build:%s:%s" % (res.status, config), {"kind": "build", "src": src, "config": config},
                       "kernel module does not build/import: %s" % str(res.detail)[:600])
        return part
    xcl = [xclass(e, t) for e, t in values]
    exact = [("int" in t or "float" in t) for _, t in values]
    for k, r in zip(kernels, res.kernels):
        tuples = inputs[k["dom"]]
        fam = "generic" if k["cclass"] == "generic" else "const"
        n = r["n"]
        if n == 0:
            continue
        # non-trivial: fast path taken (constant optimised) and operand(s) exact int/float
        nt_idx = [ti for ti, tup in enumerate(tuples) if k["opt"] and all(exact[i] for i in tup)]
        for ti in nt_idx:
            part.nt.add(harness.khash([config, k["src"], [values[i][0] for i in tuples[ti]]]))
        part.evaluations += n
        part.classes["%s:op:%s" % (fam, k["op"])] += n
        part.classes["form:%s:%s" % (k["form"].split("_o")[0].split("_i")[0], k["order"])] += n
        part.classes["const:%s" % k["cclass"]] += n
        if fam == "const":
            for tup in tuples:
                part.classes["operand:%s" % xcl[tup[0]].split(":")[0]] += 1
        part.classes["ref-outcome:exception"] += r["summ"].count("E")
        part.classes["ref-outcome:value"] += r["summ"].count("o")
        if len(part.samples) < 6 and n and (k["opt"]):
            ti = (len(part.samples) * 37 + shard * 11) % n
            part.samples.append({"kernel": k["src"], "args": [values[i][0] for i in tuples[ti]], "config": config,
                                 "cpython_outcome": "exception" if r["summ"][ti] == "E" else "value", "agrees": True})
        for ti, what in r["crashes"]:
            args = [values[i][0] for i in tuples[ti]]
            part.violation("%s:%s:%s:%s:c=%s:x=%s:crash" % (fam, OPNAME[k["op"]], k["order"], k["form"], k["cclass"],
                                                           "/".join(xcl[i] for i in tuples[ti])),
                           {"kind": "call", "src": k["src"], "kernel": k["name"], "args": args, "config": config},
                           "%s(%s) crashed the process: %s" % (k["src"].strip(), ", ".join(args), what))
        for ti, want, got in r["mism"]:
            args = [values[i][0] for i in tuples[ti]]
            kind = mismatch_kind(want, got)
            bucket = "%s:%s:%s:%s:c=%s:x=%s:%s" % (fam, OPNAME[k["op"]], k["order"], k["form"], k["cclass"],
                                                   "/".join(xcl[i] for i in tuples[ti]), kind)
            part.violation(bucket, {"kind": "call", "src": k["src"], "kernel": k["name"], "args": args, "config": config},
                           "%s  called with (%s): CPython %s, compiled %s" % (k["src"].strip().replace("\n", " ; "), ", ".join(args),
                                                                              want[:200], got[:200]))
        if r["nmis"]:
            part.count("mismatching_calls", r["nmis"])
    return part


def _warm(ctx, kernels):
    """Run Cython once in the parent so that the forked workers inherit the loaded compiler and its utility-code
    caches (the first in-process compile costs ~5-10 s of CPU, later ones < 1 s)."""
    from vlib import cybuild
    d = os.path.join(ctx.work, "c02", "warm")
    os.makedirs(d, exist_ok=True)
    p = os.path.join(d, "c02warm.py")
    with open(p, "w") as f:
        f.write("".join(k["src"] + "\n" for k in kernels))
    try:
        cybuild.cython_compile(p)
    except cybuild.CythonError:
        pass        # reported by the shard that owns these kernels


def run(ctx):
    kernels = make_kernels()
    generic = make_generic_kernels()
    _warm(ctx, kernels[0::10] + generic[::8])
    values, base = all_values(ctx.seed, ctx.quick)
    nmod = 10
    jobs = []
    configs = ["default"] if ctx.quick else ["default", "nointernals", "cplus"]
    for config in configs:
        for s in range(nmod):
            jobs.append((ctx.seed, s, config, kernels[s::nmod], values, base, ctx.quick))
        half = (len(generic) + 1) // 2
        jobs.append((ctx.seed, nmod, config, generic[:half], values, base, ctx.quick))
        jobs.append((ctx.seed, nmod + 1, config, generic[half:], values, base, ctx.quick))
    ctx.pmap(_shard, jobs)
    ctx.extra["kernels"] = {"constant": len(kernels), "generic": len(generic), "operands": len(values),
                            "generic_pair_base": len(base), "configs": configs}
    ctx.exhaustive = False
    ctx.rule = ("complete kernel table: 9 arithmetic ops x %d int constants (|c|<=2**30 optimised, 4 controls outside) x {x op c, c op x, "
                "x op= c, int-annotated variants}; 6 ops x %d float constants; << >> x shift counts %s; == != x %d constants x "
                "{value, condition} x both orders; plus %d non-constant `x op y` control kernels (17 operators x object/int typing). "
                "Operands: %d values = digit-boundary ints (+-2**(15k)+d, +-2**(30k)+d, k<=5, +-2**31/32/53/62/63/64+d), seeded "
                "random ints/floats, special floats, bools, int/float subclasses, Fraction/Decimal/complex/None/str/bytes/tuple/"
                "reflected-only objects; control kernels get the square of a %d-value base list. Oracle: same source under "
                "CPython, same operand objects; compared: type, value (float hex), exception type and args. non-trivial = "
                "the constant is one the compiler specialises (fast path helper is called) and every operand is an exact "
                "int or float; distinct by (config, kernel source, operand expressions)"
                % (len(INT_CONSTS), len(FLOAT_CONSTS), SHIFT_COUNTS, len(CMP_INT_CONSTS) + len(CMP_FLOAT_CONSTS), len(generic),
                   len(values), len(base)))
    ctx.assumptions = ["CPython 3.12 is the reference semantics",
                       "sequence operands are not multiplied by constants > 1000 and shift counts from operands are <= 200 (memory)",
                       "int-annotated kernels only receive exact ints (the annotation rejects other types by design)"]


def replay(ctx, case):
    if case.get("kind") == "build":
        cfg = CONFIGS[case.get("config", "default")]
        from vlib import cybuild
        try:
            cybuild.build(case["src"], "c02replay", os.path.join(ctx.work, "c02replay"), defines=cfg.get("defines"),
                          cplus=cfg.get("cplus", False))
        except (cybuild.CythonError, cybuild.CCError) as e:
            return True, "build fails: %s" % str(e)[:300]
        return False, "builds"
    cfg = CONFIGS[case.get("config", "default")]
    want, got = kdiff.replay_one(case["src"], case["kernel"], case["args"],
                                  os.path.join(ctx.work, "c02replay", harness.khash(case)),
                                  defines=cfg.get("defines"), cplus=cfg.get("cplus", False))
    if want == "same":
        return False, "outcomes agree"
    return True, "%s called with (%s): CPython %s, compiled %s" % (case["src"].strip().replace("\n", " ; "),
                                                                    ", ".join(case["args"]), want[:200], got[:200])
