"""C50 - the lexer engine (Cython.Plex) recognises exactly its regular-expression rules (DESIGN §4 C50).

Generated lexicons (1-4 rules, optional second scanner state) are compiled by Plex.Lexicon (NFA ->
DFA -> FastMachine) from the source view and driven by Plex.Scanner over
  (a) ALL strings of length <= 5 over {a, b, c, \\n} (1365 per lexicon, exhaustive sub-space),
  (b) Hypothesis texts up to 30 characters over {a, b, c, A, B, z, \\n},
  (c) texts of 4090..4100+ characters whose tokens straddle the scanner's 4096-character refill.
Every token (rule, text, line, column) is compared with vlib.plexref.Matcher, a set-of-end-positions
evaluator over the documented symbol stream that shares no code with Plex.

Termination rule (DESIGN §6): tokens are compared while the reference finds a match (at most
len(text)+4 tokens, so nullable rules cannot loop); if it finds none and real characters remain the
engine must raise UnrecognizedInput; if none remain the engine may return end-of-file or raise.
"""
import io
import itertools
import json

from hypothesis import strategies as st

from vlib import harness, hyp, tree, plexref

PID = "C50"
LEVEL = "exploration"
META = {
    "engine": "vlib",
    "technique": "property-based differential testing of Plex (Lexicon/DFA/Scanner) against an independent reference "
                 "matcher: generated lexicons x all strings of length <= 5 over a 4-symbol alphabet, plus generated longer "
                 "texts and 4096-byte buffer-refill texts",
    "level_text": "Exploration: Hypothesis-generated lexicons (1-4 rules over Str/Any/AnyBut/AnyChar/Range/Seq/Alt/Rep/"
                  "Rep1/Opt/Empty/NoCase/Case with Bol leading and Eol/Eof/line-terminator trailing, optional second "
                  "scanner state) are compiled by the working tree's Plex and every token (rule, text, line, column) and "
                  "the UnrecognizedInput condition are compared with a reference matcher; per lexicon the space of all "
                  "1365 strings of length <= 5 over {a,b,c,newline} is enumerated exhaustively; lexicons themselves and "
                  "longer texts are sampled.",
    "level_note": "Trusts vlib/plexref.py (set-of-end-positions evaluator over the documented BOL/EOL/EOF symbol stream). "
                  "The pure-Python Scanner of the source view is exercised (the .so build of /repo is never imported). "
                  "Behaviour after the reference finds no match at end of input is engine-defined and not compared.",
}

RE_ALPHA = "abcA\n"
SHORT_ALPHA = "abc\n"
LONG_ALPHA = "abcABz\n"


def _all_short():
    out = [""]
    for n in range(1, 6):
        out.extend("".join(t) for t in itertools.product(SHORT_ALPHA, repeat=n))
    return out


ALL_SHORT = _all_short()


# --------------------------------------------------------------------------- generators

def _chars(min_size, max_size=4):
    return st.lists(st.sampled_from(RE_ALPHA), min_size=min_size, max_size=max_size, unique=True).map("".join)


def _leaf():
    return st.one_of(
        st.text(RE_ALPHA, min_size=0, max_size=3).map(lambda s: ["str", s]),
        st.sampled_from(list(RE_ALPHA)).map(lambda s: ["str", s]),
        _chars(1).map(lambda s: ["any", s]),
        _chars(0).map(lambda s: ["anybut", s]),
        st.just(["anychar"]),
        st.sampled_from([["range", "a", "b"], ["range", "a", "c"], ["range", "b", "c"], ["range", "A", "a"],
                         ["range", "A", "C"], ["range", "\n", "a"]]),
        st.just(["empty"]),
    )


def _extend(children):
    return st.one_of(
        st.lists(children, min_size=0, max_size=3).map(lambda l: ["seq", l]),
        st.lists(children, min_size=1, max_size=3).map(lambda l: ["alt", l]),
        children.map(lambda r: ["rep", r]),
        children.map(lambda r: ["rep1", r]),
        children.map(lambda r: ["opt", r]),
        children.map(lambda r: ["nocase", r]),
        children.map(lambda r: ["case", r]),
    )


def _depth(re):
    if re[0] in ("seq", "alt"):
        return 1 + max([_depth(x) for x in re[1]] or [0])
    if re[0] in ("rep", "rep1", "opt", "nocase", "case"):
        return 1 + _depth(re[1])
    return 1


_body = st.recursive(_leaf(), _extend, max_leaves=6).filter(lambda r: _depth(r) <= 4)

TAILS = [None, None, None, [["eol"]], [["eof"]], [["eol"], ["opt", ["str", "\n"]]], [["eol"], ["str", "\n"]],
         [["eol"], ["eof"]]]


def _nullable(re):
    kind = re[0]
    if kind == "str":
        return re[1] == ""
    if kind in ("empty", "rep", "opt"):
        return True
    if kind == "seq":
        return all(_nullable(x) for x in re[1])
    if kind == "alt":
        return any(_nullable(x) for x in re[1])
    if kind in ("rep1", "nocase", "case"):
        return _nullable(re[1])
    return False


_solid = st.one_of(st.sampled_from(list("abc\n")).map(lambda s: ["str", s]),
                   _chars(1).map(lambda s: ["any", s]), _chars(1).map(lambda s: ["anybut", s]))


@st.composite
def rule_res(draw):
    body = draw(_body)
    if _nullable(body) and draw(st.integers(0, 7)) != 0:
        # a nullable rule matches '' forever at the first position nothing longer matches: keep most rules solid
        extra = draw(_solid)
        body = ["seq", [body, extra]] if draw(st.booleans()) else ["seq", [extra, body]]
    lead = draw(st.sampled_from([False, False, True]))
    tail = draw(st.sampled_from(TAILS))
    if not lead and tail is None:
        return body
    parts = ([["bol"]] if lead else []) + [body] + (tail or [])
    return ["seq", parts]


@st.composite
def lexicons(draw):
    two = draw(st.integers(0, 3)) == 0
    n = draw(st.integers(1, 4))
    rules = []
    for _ in range(n):
        re = draw(rule_res())
        if two:
            state = draw(st.sampled_from(["", "", "S1"]))
            target = draw(st.sampled_from([None, None, "S1" if state == "" else ""]))
        else:
            state, target = "", None
        rules.append([state, re, target])
    if not any(r[0] == "" for r in rules):
        rules[0][0] = ""
        if rules[0][2] == "":
            rules[0][2] = "S1"
    if draw(st.booleans()):
        # catch-all last rule(s): scanning gets past characters no other rule matches, so later tokens are reached
        catch = draw(st.sampled_from(CATCH_ALL))
        if len(rules) == 4:
            rules.pop()
            if not any(r[0] == "" for r in rules):
                rules[0][0] = ""
        rules.append(["", catch, None])
        if two and any(r[0] == "S1" for r in rules) and len(rules) < 4:
            rules.append(["S1", catch, draw(st.sampled_from([None, ""]))])
    for r in rules:                      # a rule never "switches" to its own state
        if r[2] == r[0]:
            r[2] = None
    return {"rules": rules}


CATCH_ALL = [["anychar"], ["any", "abc\n"], ["anybut", ""], ["rep1", ["any", "abcABz"]]]
_medium_text = st.text(LONG_ALPHA, min_size=6, max_size=30)


@st.composite
def long_texts(draw):
    """Texts whose length straddles the 4096-character read size of Scanner (stream.read(0x1000))."""
    unit = draw(st.sampled_from(["a", "ab", "abc", "a\n", "ab\n", "aab\nc", "\n", "abcabcab\n"]))
    total = draw(st.integers(4088, 4100))
    reps = total // len(unit)
    head = draw(st.text(SHORT_ALPHA, max_size=3))
    tail = draw(st.text(LONG_ALPHA, max_size=12))
    return head + unit * reps + tail


# --------------------------------------------------------------------------- engine side

class EngineTimeout(BaseException):
    pass


def _on_alarm(signum, frame):
    raise EngineTimeout()


def engine_tokens(plexlex, text, limit):
    """-> (tokens, ending); ending: 'limit' | 'eof' | 'unrecognized' | 'raise:<Type>' | 'timeout' (60 s watchdog:
    a normal pair takes well under a second; a timeout is counted and never a verdict)."""
    import signal
    from Cython.Plex import Scanner
    from Cython.Plex.Errors import UnrecognizedInput
    sc = Scanner(plexlex, io.StringIO(text), "t")
    out = []
    old = signal.signal(signal.SIGALRM, _on_alarm)
    signal.alarm(60)
    try:
        for _ in range(limit):
            try:
                value, tx = sc.read()
            except UnrecognizedInput:
                return out, "unrecognized"
            except Exception as e:           # anything else escaping from the scanner is a defect of the engine
                return out, "raise:%s" % type(e).__name__
            if value is None:
                return out, "eof"
            _, line, col = sc.position()
            out.append((int(value[1:]), tx, line, col))
        return out, "limit"
    except EngineTimeout:
        return out, "timeout"
    finally:
        signal.alarm(0)
        signal.signal(signal.SIGALRM, old)


def _short(tok):
    tok = tuple(tok)
    if len(tok[1]) > 48:
        tok = (tok[0], tok[1][:20] + "...<%d chars>..." % len(tok[1]) + tok[1][-12:]) + tok[2:]
    return tok


def compare(ref, ref_end, eng, eng_end):
    """-> None or (kind, message)"""
    if eng_end.startswith("raise:"):
        return "engine-" + eng_end, "Scanner.read() raised %s after %d tokens (reference: %d tokens, %s)" % (
            eng_end[6:], len(eng), len(ref), ref_end)
    for i, want in enumerate(ref):
        if i >= len(eng):
            kind = "eof-where-token" if eng_end == "eof" else "unrecognized-where-token"
            return kind, "token %d: reference %r, engine stopped with %s" % (i, _short(want), eng_end)
        got = eng[i]
        if got == want:
            continue
        if got[1] != want[1]:
            kind = "length:" + ("shorter" if len(got[1]) < len(want[1]) else "longer" if len(got[1]) > len(want[1])
                                else "other")
        elif got[0] != want[0]:
            kind = "rule"
        elif got[2] != want[2]:
            kind = "position:line"
        else:
            kind = "position:col"
        return kind, "token %d: reference (rule, text, line, col) %r, engine %r" % (i, _short(want), _short(got))
    if ref_end == "limit":
        return None
    if len(eng) > len(ref):
        return "token-where-none", "reference finds no rule matching after %d tokens (%s), engine returned %r" % (
            len(ref), ref_end, _short(eng[len(ref)]))
    if ref_end == "nomatch-chars-remain" and eng_end != "unrecognized":
        return "eof-where-unrecognized", ("no rule matches after %d tokens and input remains; engine reported %s "
                                          "instead of UnrecognizedInput" % (len(ref), eng_end))
    return None


LONG_BUDGET = 600000      # matcher steps allowed for one refill-size text (deterministic; exceeded -> pair skipped)


def check_pair(plexlex, matcher, text):
    """-> (mismatch or None, ref_tokens, ref_end, flags)"""
    limit = len(text) + 4
    ref, ref_end, flags = matcher.tokens(text, limit, budget=LONG_BUDGET if len(text) > 200 else None)
    eng, eng_end = engine_tokens(plexlex, text, limit)
    if eng_end == "timeout":
        raise EngineTimeout()
    return compare(ref, ref_end, eng, eng_end), ref, ref_end, flags


def bucket_of(kind, text):
    return "%s:%s" % (kind, "nl" if "\n" in text else "nonl")


def lexicon_features(lexicon):
    kinds = set()
    for _, re, _ in lexicon["rules"]:
        plexref.re_kinds(re, kinds)
    return kinds


def check_lexicon(part, lexicon, extra_texts, found, exhaustive=True, nt_cap=48):
    kinds = lexicon_features(lexicon)
    two = any(r[0] != "" or r[2] is not None for r in lexicon["rules"])
    lexkey = harness.khash(lexicon)
    try:
        plexlex = plexref.build_plex_lexicon(lexicon)
    except Exception as e:      # building a lexicon from valid REs must not fail
        b = "build:" + type(e).__name__
        found.setdefault(b, ({"kind": "pair", "lexicon": lexicon, "text": ""}, "Lexicon() raised %s: %s" % (
            type(e).__name__, e)))
        return
    matcher = plexref.Matcher(lexicon)
    anchors = bool(kinds & {"bol", "eol", "anybut", "anychar", "eof"})
    cl = ["lex:rules=%d" % len(lexicon["rules"])] + ["lex:uses-" + k for k in sorted(kinds)]
    if two:
        cl.append("lex:two-states")
    nt_registered = 0
    n = nt_n = 0
    outcomes = {}
    texts = (ALL_SHORT if exhaustive else []) + list(extra_texts)
    seen = set()
    for text in texts:
        if text in seen:
            continue
        seen.add(text)
        try:
            mm, ref, ref_end, (tie, lens) = check_pair(plexlex, matcher, text)
        except plexref.BudgetExceeded:
            part.count("refill_pairs_skipped_reference_budget")
            continue
        except EngineTimeout:
            part.count("engine_timeouts_inconclusive")
            continue
        n += 1
        nt = lens or ("\n" in text and anchors)
        if nt:
            nt_n += 1
            if nt_registered < nt_cap:
                nt_registered += 1
                part.nt.add(lexkey + ":" + harness.khash(text))
        nt_ = len(ref)
        o = "tokens:" + ("0" if nt_ == 0 else "1-2" if nt_ <= 2 else "3-5" if nt_ <= 5 else "6+")
        outcomes[o] = outcomes.get(o, 0) + 1
        o = "end:" + ref_end
        outcomes[o] = outcomes.get(o, 0) + 1
        if tie:
            outcomes["pair:tie-earliest-rule"] = outcomes.get("pair:tie-earliest-rule", 0) + 1
        if lens:
            outcomes["pair:rules-differ-in-length"] = outcomes.get("pair:rules-differ-in-length", 0) + 1
        if len(text) > 4000:
            outcomes["pair:refill-text"] = outcomes.get("pair:refill-text", 0) + 1
        elif len(text) > 5:
            outcomes["pair:medium-text"] = outcomes.get("pair:medium-text", 0) + 1
        if mm is not None:
            b = bucket_of(mm[0], text)
            prev = found.get(b)
            if prev is None or len(text) < len(prev[0]["text"]):
                found[b] = ({"kind": "pair", "lexicon": lexicon, "text": text}, mm[1])
            part.count("mismatching_pairs")
    part.case(["lex", lexicon], False, cl, n=n)
    if len(part.samples) < 3 and nt_n:
        ex = texts[min(len(texts) - 1, 700)]
        part.samples.append({"lexicon": lexicon, "texts_checked": n, "example_text": ex,
                             "example_reference_tokens": [list(t) for t in matcher.tokens(ex, len(ex) + 4)[0]]})
    part.count("nontrivial_pairs_total", nt_n)
    for o, c in outcomes.items():
        part.classes[o] += c


# --------------------------------------------------------------------------- reduction of a failing pair

def _mismatch(lexicon, text):
    try:
        plexlex = plexref.build_plex_lexicon(lexicon)
    except Exception as e:
        return "build:" + type(e).__name__, "Lexicon() raised %s: %s" % (type(e).__name__, e)
    try:
        mm = check_pair(plexlex, plexref.Matcher(lexicon), text)[0]
    except (plexref.BudgetExceeded, EngineTimeout):
        return None
    if mm is None:
        return None
    return bucket_of(mm[0], text), mm[1]


def _re_variants(re):
    """Smaller REs: children, element removal, shorter literals."""
    kind = re[0]
    if kind in ("seq", "alt"):
        items = re[1]
        for x in items:
            yield x
        for i in range(len(items)):
            rest = items[:i] + items[i + 1:]
            if rest or kind == "seq":
                yield [kind, rest]
        for i, x in enumerate(items):
            for v in _re_variants(x):
                yield [kind, items[:i] + [v] + items[i + 1:]]
    elif kind in ("rep", "rep1", "opt", "nocase", "case"):
        yield re[1]
        for v in _re_variants(re[1]):
            yield [kind, v]
    elif kind in ("str", "any", "anybut"):
        s = re[1]
        for i in range(len(s)):
            t = s[:i] + s[i + 1:]
            if t or kind != "any":
                yield [kind, t]
    elif kind == "anychar":
        yield ["anybut", ""]


def _lexicon_variants(lexicon):
    rules = lexicon["rules"]
    for i in range(len(rules)):
        rest = rules[:i] + rules[i + 1:]
        if any(r[0] == "" for r in rest):
            yield {"rules": rest}
    for i, (state, re, target) in enumerate(rules):
        if target is not None:
            yield {"rules": rules[:i] + [[state, re, None]] + rules[i + 1:]}
        for v in _re_variants(re):
            yield {"rules": rules[:i] + [[state, v, target]] + rules[i + 1:]}


def reduce_pair(lexicon, text, bucket, budget=400):
    kindpart = bucket.rsplit(":", 1)[0]

    cost = [0]

    def same(lx, tx):
        cost[0] += len(tx) // 100          # refill-size texts are ~40x dearer to probe than short ones
        r = _mismatch(lx, tx)
        return r is not None and r[0].rsplit(":", 1)[0] == kindpart

    progress = True
    while progress and budget - cost[0] > 0:
        progress = False
        for i in range(len(text) if len(text) <= 64 else 0):        # single characters of short texts
            cand = text[:i] + text[i + 1:]
            budget -= 1
            if same(lexicon, cand):
                text, progress = cand, True
                break
        if progress:
            continue
        if len(text) > 64:                              # halve long texts
            for cand in (text[len(text) // 2:], text[:len(text) // 2]):
                budget -= 1
                if same(lexicon, cand):
                    text, progress = cand, True
                    break
            if progress:
                continue
        for cand in _lexicon_variants(lexicon):
            budget -= 1
            if budget - cost[0] <= 0:
                break
            if same(cand, text):
                lexicon, progress = cand, True
                break
    return lexicon, text


# --------------------------------------------------------------------------- shards

def _has_catch_all(lexicon):
    return any(r[0] == "" and r[1] in CATCH_ALL for r in lexicon["rules"])


def _shard(arg):
    seed, shard, nlex, nlong = arg
    nt_cap = 48 if nlex <= 200 else 8          # thorough tier: keep the distinct-NT set small (it is a lower bound)
    tree.activate_view()
    part = harness.Part()
    found = {}
    strat = st.tuples(lexicons(), st.lists(_medium_text, min_size=2, max_size=8))
    drawn = hyp.draw_many(strat, nlex + 1, seed, "c50", shard)[1:]
    longs = hyp.draw_many(long_texts(), nlong + 1, seed, "c50long", shard)[1:] if nlong else []
    seen = set()
    for n, (lexicon, extras) in enumerate(drawn):
        key = json.dumps(lexicon, sort_keys=True)
        if key in seen:
            part.count("duplicate_lexicons")
            continue
        seen.add(key)
        extras = list(extras)
        if longs and _has_catch_all(lexicon):
            # refill-size texts go to lexicons that can scan past every character (otherwise most stop at token 0)
            extras.append(longs.pop(0))
        check_lexicon(part, lexicon, extras, found, nt_cap=nt_cap)
    for bucket, (case, what) in sorted(found.items()):
        if not bucket.startswith("build:"):
            lx, tx = reduce_pair(case["lexicon"], case["text"], bucket)
            r = _mismatch(lx, tx)
            if r is not None:
                case, what, bucket = {"kind": "pair", "lexicon": lx, "text": tx}, r[1], r[0]
        part.violation(bucket, case, what)
    return part


def _size(case):
    return len(json.dumps(case["lexicon"])) + len(case["text"])


def prime():
    """Import everything the shards use BEFORE the workers are forked and before any Hypothesis draw: Hypothesis mixes
    constants collected from the local modules in sys.modules into its draws, so the set of imported modules must not
    depend on what a worker process happened to do earlier (otherwise results depend on the job count)."""
    tree.activate_view()
    lx = {"rules": [["", ["seq", [["bol"], ["nocase", ["rep1", ["any", "ab"]]], ["eol"]]], "S1"],
                    ["S1", ["alt", [["anybut", "a"], ["opt", ["range", "a", "c"]], ["eof"]]], ""],
                    ["", ["anychar"], None]]}
    for text in ("ab\nBc", "", "zz\n"):
        _mismatch(lx, text)
    _mismatch({"rules": [["", ["str", "a"], None]]}, "b")


def run(ctx):
    prime()
    nlex = 100 if ctx.quick else 2500
    nlong = 4 if ctx.quick else 60
    ctx.pmap(_shard, [(ctx.seed, i, nlex, nlong) for i in range(16)])
    # one (smallest) case per bucket
    best, order = {}, []
    for v in ctx.violations:
        b = v[0]
        if not (isinstance(v[1], dict) and v[1].get("kind") == "pair"):
            order.append(v)
        elif b not in best:
            best[b] = v
            order.append(b)
        elif _size(v[1]) < _size(best[b][1]):
            best[b] = v
    ctx.violations[:] = [best[x] if isinstance(x, str) else x for x in order]
    ctx.exhaustive = True
    ctx.extra["exhaustive_space"] = ("per generated lexicon: all %d strings of length <= 5 over {a, b, c, newline}; the "
                                     "lexicons themselves and the longer texts are sampled" % len(ALL_SHORT))
    ctx.extra["nontrivial_pairs_total"] = int(ctx.counters.get("nontrivial_pairs_total", 0))
    ctx.rule = ("Hypothesis lexicons (1-4 rules, regex depth <= 4 over Str/Any/AnyBut/AnyChar/Range/Seq/Alt/Rep/Rep1/Opt/"
                "Empty/NoCase/Case on {a,b,c,A,newline}; Bol only leading, Eol/Eof/Eol+newline only trailing; a quarter "
                "with a second scanner state entered through scanner.begin()) x [all 1365 strings of length <= 5 over "
                "{a,b,c,newline} + 2-8 texts of 6-30 chars over {a,b,c,A,B,z,newline} + for some lexicons one text of "
                "4088-4112 chars crossing the 4096-char refill]. One evaluation = one (lexicon, text) pair: first "
                "len(text)+4 tokens (rule, text, line, column) and the UnrecognizedInput condition vs the reference "
                "matcher. Non-trivial = at some token start two rules match with different lengths, or the text has a "
                "newline and the lexicon uses Bol/Eol/Eof/AnyBut/AnyChar; distinct_nontrivial registers at most 48 (thorough: 8) such "
                "pairs per lexicon (a lower bound, see nontrivial_pairs_total for the full number)")
    ctx.assumptions = ["reference semantics = the documented symbol stream BOL chars EOL newline ... EOL EOF; longest match "
                       "in stream symbols, ties to the earliest rule",
                       "after the reference finds no match with no input left the engine may return EOF or raise "
                       "(engine-defined tail, DESIGN §6 termination rule)",
                       "Bol is generated only in leading and Eol/Eof only in trailing position of a rule, as "
                       "Cython/Compiler/Lexicon.py uses them"]


def replay(ctx, case):
    prime()
    r = _mismatch(case["lexicon"], case["text"])
    if r is None:
        return False, "engine and reference agree on %r" % case["text"][:60]
    return True, "%s: %s" % r
