"""C26 - global and builtin lookups always see the current binding (DESIGN §4 C26, engine E2 stateful + E4)."""
import os

from vlib import cybuild, diffmod, harness, hyp, runner, tree
from vlib.gen import globalhist as gh

PID = "C26"
LEVEL = "exploration"
META = {
    "technique": "stateful property-based testing: generated histories of module-dict / builtins mutations interleaved with reads through compiled reader functions, checked against a dict-chain model and the CPython twin, over a C-macro / option matrix",
    "level_text": "Exploration: a module with reader functions for globals (defined at import, only assigned by a writer, shadowing the builtin `len`) and - with cache_builtins=False - for names it never assigns (`abs`, a name that exists nowhere), each read from several call sites (plain return, local, closure, comprehension, double read), plus writers/deleters, is compiled once per configuration: default and -DCYTHON_USE_DICT_VERSIONS=1 (forces the per-call-site dict-version cache that is off by default on 3.12), each with cache_builtins True/False (thorough adds the Limited API). Thousands of Hypothesis histories (<=10 steps + 2 final reads: setattr/delattr on the module, module.__dict__ item set/pop/update/clear+restore, writer/deleter calls, write-then-read and read-delete-read inside one function, unrelated dict churn, and for cache_builtins=False add/replace/delete on the builtins module) run in the same process so call-site caches stay warm across histories; every read must equal the plain lookup module.__dict__ -> builtins.__dict__ made at that moment (NameError exactly when both miss), and the whole outcome list must equal CPython running the same source and driver. No proof.",
    "level_note": "Trusts CPython 3.12 and the dict-chain model (the model is itself checked against CPython in the reference run); names the module never assigns are compile-time builtins by documented design, so they are only read in the cache_builtins=False build and only mutated through the builtins module (DESIGN §6 guard).",
}

VARIANTS = {
    "A": {"builtin_only": False, "cache_builtins": True},
    "B": {"builtin_only": True, "cache_builtins": False},
}
CELLS_QUICK = [("default", []), ("dictversions", ["CYTHON_USE_DICT_VERSIONS=1"])]
CELLS_THOROUGH = CELLS_QUICK + [("limited", ["CYTHON_LIMITED_API=1", "Py_LIMITED_API=0x030c0000"])]
BATCH = 200


def module_source(variant):
    src = gh.MODULE
    if not VARIANTS[variant]["builtin_only"]:
        keep = []
        for block in src.split("\n\n"):
            if any(("_%s_" % n) in block or ("rr_%s(" % n) in block for n in gh.BUILTIN_ONLY):
                continue
            keep.append(block)
        src = "\n\n".join(keep)
    return src + "\n"


def cython_variant(variant, outdir):
    """Cython-compile the module for one variant (sets the process-wide Options it needs). -> (py path, c path, name)"""
    tree.activate_view()
    from Cython.Compiler import Options
    name = "c26m_" + variant
    d = os.path.join(outdir, name)
    os.makedirs(d, exist_ok=True)
    path = os.path.join(d, name + ".py")
    with open(path, "w") as f:
        f.write(module_source(variant))
    old = (Options.cache_builtins, Options.error_on_unknown_names)
    try:
        Options.cache_builtins = VARIANTS[variant]["cache_builtins"]
        Options.error_on_unknown_names = not VARIANTS[variant]["builtin_only"]
        c_path = cybuild.cython_compile(path)
    finally:
        Options.cache_builtins, Options.error_on_unknown_names = old
    return path, c_path, name


def build_all(outdir, cells):
    builds = {}
    for variant in sorted(VARIANTS):
        path, c_path, name = cython_variant(variant, outdir)
        for cname, defines in cells:
            so = os.path.join(outdir, name, "so_" + cname, name + cybuild.EXT_SUFFIX)
            os.makedirs(os.path.dirname(so), exist_ok=True)
            cybuild.cc(c_path, so, defines=defines)
            builds[(variant, cname)] = (path, so, name)
    return builds


def decode(outcome):
    """canon outcome of H.run -> list of python-ish entries (lists), or None"""
    if outcome[0] != "ok" or outcome[1][0] != "list":
        return None
    return [e[1] for e in outcome[1][1]]


def first_problem(history, ref, got):
    """-> None or (bucket tail, text)"""
    eg = decode(got)
    if eg is None:
        return "driver:" + (got[1] if len(got) > 1 and isinstance(got[1], str) else got[0]), "driver outcome %s" % diffmod.json_short(got)
    er = decode(ref) if ref is not None else None
    # (1) every read equals the dict-chain model evaluated at that moment
    last_mut = {}
    reads = iter(eg)
    idx = 0
    entries_iter = []
    for step in history:
        op = step[0]
        if op in gh.MUTATORS:
            nm = "ga" if op in ("wr", "rd") else step[1]
            for n in ([nm] if nm else gh.MOD_NAMES):
                last_mut[n] = op
        if op in ("read", "read2", "d", "wr", "rd"):
            if idx >= len(eg):
                return "short-output", "driver returned %d entries" % len(eg)
            e = eg[idx]
            if op in ("read", "read2"):
                gotv, model = e[-2], e[-1]
                if gotv != model:
                    name = step[1]
                    site = step[2] if op == "read" else "double"
                    return ("read:%s@%s|after:%s|%s-vs-model-%s" % (name, site, last_mut.get(name, "nothing"),
                                                                   klass(gotv), klass(model)),
                            "step %d %r: compiled read gave %s, module.__dict__/builtins lookup gives %s" % (
                                history.index(step), step, diffmod.json_short(gotv), diffmod.json_short(model)))
            idx += 1
    # (2) whole outcome list equals the CPython twin.  `del name` of a missing global raises AttributeError in compiled code
    # (NameError in CPython): not a lookup, so only "raised or not" is compared for deleter calls (reported in notes/C26.md).
    def norm(entries):
        out = []
        for e in entries:
            if e[0][1] == "'del'" and e[2][1] != "'ok'":
                e = [e[0], e[1], ["str", "'raised'"]]
            elif e[0][1] == "'rd'" and e[1][1][0][1] != "'ok'":
                e = [e[0], ["str", "'raised'"]]          # rd_ga() contains a `del ga`
            out.append(e)
        return out
    if er is not None:
        er, eg = norm(er), norm(eg)
    if er is not None and er != eg:
        for i, (a, b) in enumerate(zip(er, eg)):
            if a != b:
                return "twin-diff:%s" % a[0][1].strip("'"), "entry %d: CPython %s vs compiled %s" % (i, diffmod.json_short(a), diffmod.json_short(b))
        return "twin-diff:length", "CPython %d entries vs compiled %d" % (len(er), len(eg))
    return None


def klass(v):
    # v is canon of ("ok", value) / ("NameError",) / ("exc", T)
    try:
        head = v[1][0][1].strip("'")
        return head
    except Exception:
        return "?"


def _shard(arg):
    seed, shard, nhist, builds, maxlen = arg
    tree.activate_view()
    part = harness.Part()
    for variant in sorted(VARIANTS):
        with_b = VARIANTS[variant]["builtin_only"]
        hs = hyp.draw_many(gh.histories(with_b, maxlen), nhist + 1, seed, "c26", variant, shard)[1:]
        for b0 in range(0, len(hs), BATCH):
            batch = hs[b0:b0 + BATCH]
            cases = [{"expr": "H.run(M, %r)" % (h,)} for h in batch]
            refpath, _, name = builds[(variant, "default")]
            imp_r, ref = runner.run_cases("py", refpath, name, cases, setup=gh.SETUP)
            if imp_r[0] != "ok":
                raise RuntimeError("reference import failed: %r" % (imp_r,))
            # the model must agree with CPython itself, otherwise the model (not Cython) is wrong
            for h, r in zip(batch, ref):
                p = first_problem(h, None, r)
                if p is not None:
                    raise RuntimeError("dict-chain model disagrees with CPython on %r: %s" % (h, p[1]))
            for (v2, cname), (path, so, name) in sorted(builds.items()):
                if v2 != variant:
                    continue
                cell = "%s:%s" % (variant, cname)
                imp_c, got = runner.run_cases("so", so, name, cases, setup=gh.SETUP)
                if imp_c != imp_r:
                    part.violation("import-diff|" + cell, {"variant": variant, "cell": cname, "histories": []},
                                   "module import differs: CPython %s vs compiled %s" % (imp_r, diffmod.json_short(imp_c)))
                    continue
                for i, (h, r, g) in enumerate(zip(batch, ref, got)):
                    part.case([variant, h], gh.nontrivial(h), ["cell:" + cell] + gh.classes(h),
                              sample={"cell": cell, "history": h, "compiled": diffmod.json_short(g, 300)})
                    if g[0] in ("timeout", "notrun") or r[0] in ("timeout", "notrun"):
                        part.count("timeouts")
                        continue
                    p = first_problem(h, r, g)
                    if p is not None:
                        # self-contained replay: the history alone if that reproduces in a fresh process, else with its warm-up prefix
                        part.violation("%s|%s" % (cell, p[0]),
                                       {"variant": variant, "cell": cname, "histories": batch[:i + 1], "focus": i},
                                       "history %r: %s" % (h, p[1]))
    return part


def run(ctx):
    outdir = os.path.join(ctx.work, "c26")
    cells = CELLS_QUICK if ctx.quick else CELLS_THOROUGH
    builds = build_all(outdir, cells)
    nhist = 200 if ctx.quick else 2400
    nshards = 8 if ctx.quick else 16
    maxlen = 10
    ctx.pmap(_shard, [(ctx.seed, s, nhist, builds, maxlen) for s in range(nshards)])
    # shrink replay cases: keep only the failing history when it reproduces alone
    out = []
    seen = set()
    for bucket, case, what in ctx.violations:
        if bucket not in seen and case.get("histories"):
            seen.add(bucket)
            alone = dict(case, histories=[case["histories"][-1]], focus=0)
            try:
                ok, _ = _replay_with(builds, alone)
            except Exception:
                ok = False
            if ok:
                case = alone
        out.append((bucket, case, what))
    ctx.violations = out
    ctx.rule = ("fixed reader/writer module (vlib/gen/globalhist.py: globals ga (defined), gb (writer-only), len (builtin shadowed by a writer); "
                "variant B adds abs and zz_new which the module never assigns; 4 reader call-site shapes + a double read per name) built as "
                "variant A (cache_builtins=True) / B (cache_builtins=False, error_on_unknown_names=False) x cells %s; %d Hypothesis histories "
                "per variant and shard x 8 (quick) / 16 shards (3-%d steps + 2 final reads, focused on one name 75%% of the time), executed %d per runner "
                "process with the module state reset (not the call-site caches) between histories; oracle: each read == lookup in "
                "module.__dict__ then builtins.__dict__ at that moment (NameError iff both miss) and the full outcome list == CPython twin. "
                "non-trivial = a read follows a mutation of the same name after an earlier read at the same call site; distinct by (variant, history)"
                % ([c for c, _ in cells], nhist, maxlen, BATCH))
    ctx.assumptions = ["CPython 3.12 is the reference", "never-assigned names are only mutated via builtins and only with cache_builtins=False (documented compile-time binding otherwise)",
                       "reads are plain name loads (optimised builtin *calls* such as len(x) are a different mechanism)"]
    ctx.extra["cells"] = ["%s:%s" % k for k in sorted(builds)]


def _replay_with(builds, case):
    variant, cname = case["variant"], case["cell"]
    path, so, name = builds[(variant, cname)]
    cases = [{"expr": "H.run(M, %r)" % (h,)} for h in case["histories"]]
    imp_r, ref = runner.run_cases("py", path, name, cases, setup=gh.SETUP)
    imp_c, got = runner.run_cases("so", so, name, cases, setup=gh.SETUP)
    if imp_c != imp_r:
        return True, "import differs: %s vs %s" % (imp_r, diffmod.json_short(imp_c))
    i = case.get("focus", len(cases) - 1)
    p = first_problem(case["histories"][i], ref[i], got[i])
    if p is not None:
        return True, "history %r: %s" % (case["histories"][i], p[1])
    return False, "reads agree with model and CPython"


def replay(ctx, case):
    tree.activate_view()
    outdir = os.path.join(ctx.work, "c26replay")
    cells = [c for c in CELLS_THOROUGH if c[0] == case["cell"]]
    path, c_path, name = cython_variant(case["variant"], outdir)
    so = os.path.join(outdir, name, "so_" + case["cell"], name + cybuild.EXT_SUFFIX)
    os.makedirs(os.path.dirname(so), exist_ok=True)
    cybuild.cc(c_path, so, defines=cells[0][1])
    return _replay_with({(case["variant"], case["cell"]): (path, so, name)}, case)
