"""C25 - compiled functions report faithful names and signatures (DESIGN §4 C25, engine E2)."""
import ast
import os

from vlib import cybuild, diffmod, harness, runner, tree
from vlib.gen import sigs

PID = "C25"
LEVEL = "exploration"
META = {
    "technique": "property-based differential testing: generated signatures/default expressions/docstrings in module, class and nested scopes; inspect.signature and name attributes of the compiled function vs CPython, embedded signature text re-parsed with ast and its defaults re-evaluated",
    "level_text": "Exploration: Hypothesis-generated functions (all parameter kinds, annotations, default expressions built as ast trees: nested operators needing parentheses, negative numbers, strings with quotes/escapes/non-ASCII, bytes, containers incl. 1-tuples and empty sets, conditional expressions, lambdas, attribute access, calls, subscripts, starred, f-strings, comprehensions; docstrings of several shapes) in module / class / nested-function / nested-class / function-local-class scopes are batched into modules and compiled from the working tree twice: with binding=True (inspect.signature names, kinds, default values, __name__, __qualname__, __module__, __doc__ compared with CPython importing the same source) and with embedsignature=True in format c / python / clinic (first docstring line re-parsed with ast: parameter names and kinds, every default text re-evaluated in the module namespace and compared by value with the real default, remaining docstring text). Hundreds of functions per run; no proof.",
    "level_note": "Trusts CPython 3.12 inspect/ast; embedded default texts are compared by VALUE after evaluation in the module namespace (operands are chosen so that a dropped parenthesis changes the value), not by AST shape, because the compiler legitimately constant-folds before printing; annotations are generated but not compared; annotation_typing is switched off so that annotations stay documentation.",
}
K = 24
FORMATS = ["c", "python", "c", "clinic"]


def _write(path, text):
    os.makedirs(os.path.dirname(path), exist_ok=True)
    with open(path, "w", encoding="utf-8", newline="") as f:
        f.write(text)


def entries(outcome):
    """decode ["ok", ["list", [["tuple", [...]] ...]]] -> list of entry canon lists, or None"""
    if outcome[0] != "ok" or outcome[1][0] != "list":
        return None
    return [e[1] for e in outcome[1][1]]


def label(entry):
    return entry[0][1].strip("'")


def _desc(n):
    if isinstance(n, ast.Tuple):
        return "Tuple%d" % len(n.elts) if len(n.elts) < 2 else "Tuple"
    if isinstance(n, (ast.BinOp, ast.UnaryOp, ast.BoolOp)):
        return "%s(%s)" % (type(n).__name__, type(n.op).__name__)
    if isinstance(n, ast.Constant):
        return "Constant(%s)" % type(n.value).__name__
    return type(n).__name__


_GROUPS = [(ast.Mult, ast.Div, ast.FloorDiv, ast.Mod, ast.MatMult), (ast.Add, ast.Sub), (ast.LShift, ast.RShift)]


def _prec_group(op):
    for i, g in enumerate(_GROUPS):
        if isinstance(op, g):
            return i
    return type(op).__name__


def _value(n):
    v = eval(compile(ast.fix_missing_locations(ast.Expression(body=n)), "<loc>", "eval"), dict(sigs.prelude_ns()))
    return repr(v) if not isinstance(v, float) else v.hex()


def _differs(a, b):
    if ast.dump(a) == ast.dump(b):
        return False
    try:
        return _value(a) != _value(b)
    except Exception:
        return True


def locate(s, e):
    """Smallest source sub-expression whose embedded re-print has a different value: 'SrcDesc->EmbDesc' or 'Desc:field'."""
    if type(s) is not type(e):
        # the compiler folds constant conditions / operands before printing: follow the branch that is left
        try:
            if isinstance(s, ast.IfExp):
                return locate(s.body if eval(compile(ast.fix_missing_locations(ast.Expression(body=s.test)), "<t>", "eval"),
                                             dict(sigs.prelude_ns())) else s.orelse, e)
            if isinstance(s, ast.BoolOp):
                for v in s.values[:-1]:
                    truth = bool(eval(compile(ast.fix_missing_locations(ast.Expression(body=v)), "<t>", "eval"), dict(sigs.prelude_ns())))
                    if truth == isinstance(s.op, ast.Or):
                        return locate(v, e)
                return locate(s.values[-1], e)
        except Exception:
            pass
        return "%s->%s" % (_desc(s), _desc(e))
    if isinstance(s, ast.BinOp):
        shape = lambda n: (isinstance(n.left, ast.BinOp), isinstance(n.right, ast.BinOp))
        if shape(s) != shape(e) and _prec_group(s.op) == _prec_group(e.op):
            return "%s:regrouped" % _desc(s)
    if isinstance(s, ast.IfExp):
        shape = lambda n: tuple(isinstance(x, ast.IfExp) for x in (n.test, n.body, n.orelse))
        if shape(s) != shape(e):
            return "IfExp:regrouped"
    if isinstance(s, ast.Compare) and len(s.ops) != len(e.ops):
        return "Compare:chain-truncated" if len(s.ops) > len(e.ops) else "Compare:parens-lost"
    for field in s._fields:
        a, b = getattr(s, field, None), getattr(e, field, None)
        if isinstance(a, list) and isinstance(b, list):
            if len(a) != len(b):
                return "%s:%s-count" % (_desc(s), field)
            for x, y in zip(a, b):
                if isinstance(x, ast.AST) and isinstance(y, ast.AST):
                    if _differs(x, y):
                        return locate(x, y)
                elif x != y:
                    return "%s:%s" % (_desc(s), field)
        elif isinstance(a, ast.AST) and isinstance(b, ast.AST):
            if _differs(a, b):
                return locate(a, b)
        elif a != b:
            return "%s:%s" % (_desc(s), field)
    return "%s:same-structure" % _desc(s)


def astdiff(src_text, emb_text):
    if emb_text.count("...") > src_text.count("..."):
        # the writer's placeholder for a node kind it cannot print
        return "placeholder-ellipsis"
    try:
        return locate(ast.parse(src_text, mode="eval").body, ast.parse(emb_text, mode="eval").body)
    except Exception as e:
        return "locate-failed:" + type(e).__name__


def emb_texts(got):
    """(signature text, [default texts in order], raw docstring canon) recorded by H.emb for the compiled module"""
    eg = entries(got) or []
    for e in eg:
        if label(e) == "texts":
            try:
                sig = ast.literal_eval(e[1][1]) if e[1][0] == "str" else None
                return sig, [ast.literal_eval(t[1]) for t in e[2][1]], e[3]
            except Exception:
                return None, [], None
    return None, [], None


def first_diff(ref, got):
    """-> None or (kind string, detail) describing the first differing entry"""
    er, eg = entries(ref), entries(got)
    if er is None or eg is None:
        return "outcome:" + str(diffmod.compare(ref, got, "full")), None
    eg = [e for e in eg if label(e) != "texts"]
    for i in range(max(len(er), len(eg))):
        if i >= len(eg):
            return "missing:" + label(er[i]), er[i]
        if i >= len(er):
            return "extra:" + label(eg[i]), eg[i]
        a, b = er[i], eg[i]
        if a == b:
            continue
        la, lb = label(a), label(b)
        if la != lb:
            return "%s->%s" % (la, lb), b
        if la == "param":
            for j, sub in ((1, "name"), (2, "kind"), (3, "default")):
                if a[j] != b[j]:
                    if sub == "default":
                        sa = a[3][1][0][1].strip("'") if a[3][0] == "tuple" else "empty"
                        sb = b[3][1][0][1].strip("'") if b[3][0] == "tuple" else "empty"
                        return "param-default:%s->%s" % (sa, sb), (a, b)
                    return "param-" + sub, (a, b)
        return la, (a, b)
    return None


def param_name(detail):
    try:
        return detail[0][1][1].strip("'").encode("ascii").decode("unicode_escape")
    except Exception:
        return None


def run_cell(items, name, outdir, cell, part, record=True):
    """cell = "inspect" or "emb:<fmt>".  Returns list of (bucket, case, what)."""
    d = os.path.join(outdir, name)
    if cell == "inspect":
        directives = {"binding": True, "annotation_typing": False}
        exprs = ["H.desc(%s)" % it["access"].format(M="M.") for it in items]
    else:
        fmt = cell.split(":")[1]
        directives = {"embedsignature": True, "embedsignature.format": fmt, "binding": fmt != "clinic",
                      "annotation_typing": False}
        items = [it for it in items if it["meta"]["scope"] != "lambda" and (fmt != "clinic" or it["meta"]["scope"] == "module")]
        exprs = ["H.emb(%s, M, %r)" % (it["access"].format(M="M."), fmt) for it in items]
    if not items:
        return []
    viol = []
    for attempt in range(3):
        src = sigs.PRELUDE + "\n" + "\n".join(it["src"] for it in items)
        path = os.path.join(d, name + ".py")
        _write(path, src)
        try:
            c_path = cybuild.cython_compile(path, directives=directives)
            break
        except Exception:
            good = []
            for j, it in enumerate(items):
                p1 = os.path.join(d, "probe", "p%d.py" % j)
                _write(p1, sigs.PRELUDE + "\n" + it["src"])
                try:
                    cybuild.cython_compile(p1, directives=directives)
                    good.append(it)
                except cybuild.CythonError as e1:
                    part.count("cython_rejected_items")
                    for msg in diffmod.cy_error_messages(e1.errors)[:1] or ["?"]:
                        part.classes["rejected:" + msg[:80]] += 1
                except Exception as e1:
                    part.count("cython_crashed_items")
                    part.classes["compiler-crash:%s: %s" % (type(e1).__name__, str(e1)[:60])] += 1
            if len(good) == len(items) or not good:
                part.count("cython_rejected_batches")
                return []
            exprs = [e for e, it in zip(exprs, items) if it in good]
            items = good
    else:
        return []
    so = os.path.join(d, "so", name + cybuild.EXT_SUFFIX)
    os.makedirs(os.path.dirname(so), exist_ok=True)
    try:
        cybuild.cc(c_path, so)
    except cybuild.CCError as e:
        # not C25's subject (the C code is invalid: C43/C01 territory): isolate the culprit, count it, go on with the rest
        if len(items) > 1:
            mid = len(items) // 2
            return run_cell(items[:mid], name + "a", outdir, cell, part, record) + \
                run_cell(items[mid:], name + "b", outdir, cell, part, record)
        part.count("c_compile_failed_items")
        import re
        m = re.search(r"error: ([^\n]*)", str(e))
        part.classes["ccerror:" + (m.group(1)[:80] if m else "?")] += 1
        return []
    cases = [{"expr": e} for e in exprs]
    imp_r, ref = runner.run_cases("py", path, name, cases, setup=sigs.SETUP)
    imp_c, got = runner.run_cases("so", so, name, cases, setup=sigs.SETUP)
    if imp_r[0] != "ok":
        raise RuntimeError("reference import failed: %r" % (imp_r,))
    if imp_c != imp_r:
        part.violation("import-diff|" + cell, {"cell": cell, "items": [_slim(it) for it in items]},
                       "module import differs: CPython %s vs compiled %s" % (imp_r, diffmod.json_short(imp_c)))
        return []
    for it, e, r, g in zip(items, exprs, ref, got):
        meta = it["meta"]
        if record:
            nt = meta["nonplain"] >= 1 or meta["depth"] >= 2
            part.case([it["src"], cell], nt, ["cell:" + cell, "scope:" + meta["scope"]] + ["tag:" + t for t in meta["tags"]],
                      sample={"cell": cell, "src": it["src"], "expr": e, "compiled": diffmod.json_short(g, 300)})
        if r[0] != "ok":
            part.count("reference_raised")
            continue
        fd = first_diff(r, g)
        if fd is None:
            continue
        kind, detail = fd
        if meta["scope"] == "lambda" and kind in ("name", "qualname"):
            part.count("lambda_name_not_compared")     # the statement is about def functions
            r2 = ["ok", ["list", [x for x in r[1][1] if x[1][0][1] not in ("'name'", "'qualname'")]]]
            g2 = ["ok", ["list", [x for x in g[1][1] if x[1][0][1] not in ("'name'", "'qualname'")]]]
            fd = first_diff(r2, g2)
            if fd is None:
                continue
            kind, detail = fd
        if cell != "inspect" and meta["scope"] in ("nested", "funcclass"):
            if emb_texts(g)[2] in (runner_canon(meta["doc"]), runner_canon(meta["doc"] or None)):
                # functions defined inside functions get no embedded signature (EmbedSignature does not descend):
                # nothing to compare - the property speaks about the embedded text
                part.count("no_embedded_signature_for_inner_function")
                continue
        extra = ""
        if kind.startswith("param-default") and detail:
            pn = param_name(detail)
            dflt = meta["defaults"].get(pn)
            if dflt and cell != "inspect":
                sigtext, texts, _ = emb_texts(g)
                idx = [n for n in meta["default_order"]].index(pn) if pn in meta["default_order"] else -1
                if 0 <= idx < len(texts):
                    extra = "|astdiff=" + astdiff(dflt[0], texts[idx])
            if dflt and not extra:
                extra = "|" + ",".join(dflt[1]) + "|src=" + diffmod.msg_template(dflt[0])[:50]
        bucket = "%s|%s|%s%s" % (cell, kind, meta["scope"] if not kind.startswith("param-default") else "-", extra)
        what = "%s on\n%s: CPython %s vs compiled %s" % (e, it["src"], diffmod.json_short(detail[0] if isinstance(detail, tuple) else r, 300),
                                                       diffmod.json_short(detail[1] if isinstance(detail, tuple) else g, 300))
        if cell != "inspect":
            what += "; embedded signature text: %r" % (emb_texts(g)[0],)
        viol.append((bucket, {"cell": cell, "items": [_slim(it)]}, what))
    for v in viol:
        part.violation(*v)
    return viol


def runner_canon(v):
    from vlib import runner_main
    return runner_main.canon(v)


def _slim(it):
    return {"src": it["src"], "access": it["access"], "meta": it["meta"]}


def _shard(arg):
    seed, shard, nmods, depth = arg
    tree.activate_view()
    part = harness.Part()
    outdir = os.path.join(tree.workdir(), "c25", "s%d" % shard)
    for m in range(nmods):
        items = sigs.draw_items(K, seed, ("c25", shard, m), "%d_%d" % (shard, m), depth=depth)
        run_cell(items, "c25i_%d_%d" % (shard, m), outdir, "inspect", part)
        fmt = FORMATS[(shard + m) % len(FORMATS)]
        run_cell(items, "c25e_%d_%d" % (shard, m), outdir, "emb:" + fmt, part)
    return part


def _warm_up(ctx):
    p = os.path.join(ctx.work, "c25warm", "warm.py")
    _write(p, "def f(a, b=1):\n    return a\n")
    cybuild.cython_compile(p)


def run(ctx):
    _warm_up(ctx)
    nmods = 1 if ctx.quick else 10
    depth = 3 if ctx.quick else 4
    ctx.pmap(_shard, [(ctx.seed, s, nmods, depth) for s in range(16)])
    ctx.rule = ("Hypothesis functions: 0-2 positional-only, 1-3 normal, 0-2 keyword-only parameters, optional *args/**kw, annotations, "
                "return annotation, docstring shapes (none, one line with quotes/non-ASCII, indented multi-line, signature look-alike, "
                "empty); default expressions as ast trees of depth<=%d (see vlib/gen/sigs.py) that evaluate in the module prelude; scopes "
                "module/lambda/class/staticmethod/classmethod/nested function/nested class/function-local class; %d functions per module, "
                "each module compiled with binding=True (inspect cell) and embedsignature=True format c/python/clinic (clinic: binding=False, "
                "module-level functions, via __text_signature__). Oracle: CPython on the same source (entry-wise: name, qualname, module, doc, "
                "each parameter's name/kind/default value; embedded text: parameter names/kinds, default text evaluated in the module "
                "namespace equals the real default, rest of docstring equals inspect.cleandoc(original)). non-trivial = >=1 default that "
                "is not a plain small literal or scope depth >= 2; distinct by (source, cell)" % (depth, K))
    ctx.assumptions = ["CPython 3.12 inspect.signature / ast are the reference", "embedded defaults compared by value, not by AST shape",
                       "annotation_typing=False; annotations not compared"]


_REPLAY_CACHE = {}


def _committed_batch(ctx):
    """Run all committed replay cases in one module per cell (one build instead of one per finding)."""
    if _REPLAY_CACHE:
        return
    _REPLAY_CACHE["_done"] = True
    groups = {}
    for path, rep in harness.committed_replays(PID):
        case = rep.get("case", {})
        if isinstance(case.get("items"), list) and len(case["items"]) == 1 and "cell" in case:
            groups.setdefault(case["cell"], []).append(case["items"][0])
    for cell, items in sorted(groups.items()):
        uids = [it["meta"]["uid"] for it in items]
        if len(set(uids)) != len(uids):
            continue
        part = harness.Part()
        outdir = os.path.join(ctx.work, "c25replaybatch")
        run_cell(items, "c25rb_" + cybuild.sha12(cell)[:6], outdir, cell, part, record=False)
        hit = {}
        for bucket, case, what in part.violations:
            for it in case.get("items", []):
                hit.setdefault(it["meta"]["uid"], what)
        for it in items:
            _REPLAY_CACHE[(cell, it["src"])] = hit.get(it["meta"]["uid"])


def replay(ctx, case):
    tree.activate_view()
    if len(case.get("items", [])) == 1:
        _committed_batch(ctx)
        key = (case["cell"], case["items"][0]["src"])
        if key in _REPLAY_CACHE:
            what = _REPLAY_CACHE[key]
            return (what is not None), (what or "agrees")
    part = harness.Part()
    outdir = os.path.join(ctx.work, "c25replay")
    run_cell(case["items"], "c25r_" + cybuild.sha12(repr(case))[:8], outdir, case["cell"], part, record=False)
    if part.violations:
        return True, part.violations[0][2]
    return False, "agrees"
