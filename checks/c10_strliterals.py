"""C10 - string / bytes / char literals keep their exact values under every string-table compression setting
(DESIGN §4 C10; E2 + E4).

Literal SOURCE TEXT is generated (vlib/gen/strlit.py): prefixes x quotes x escape kinds x raw characters x implicit
concatenation x lengths.  A module of 30 literals (`def f_i(): return <lit>` and `X_i = <lit>`) is run through Cython
ONCE and its C file is compiled four times with -DCYTHON_COMPRESS_STRINGS = 0 (none), 1 (zlib), 2 (bz2), 90 (lzss);
every build is imported in a runner subprocess and every value compared (type + exact content) with CPython
importing the same source file (same bytes, same coding cookie).  Char literals (.pyx, c'x') are compared through
<unsigned char> with the byte CPython's b'...' literal gives.
"""
import os
import re
import warnings

from vlib import cybuild, diffmod, harness, hyp, runner, tree
from vlib.gen import strlit

PID = "C10"
LEVEL = "exploration"
META = {
    "technique": "property-based differential testing of generated literal source text: one Cython run per module, the C file compiled "
                 "under four CYTHON_COMPRESS_STRINGS settings, values compared with CPython importing the same source file",
    "level_text": "Exploration: Hypothesis assembles str/bytes literal source text from prefixes ('', u, b, r, br/rb, f without fields, "
                  "fr/rf, all cases), the four quote styles, every simple escape, 1-3 digit octal (incl. > 0o377), \\x, \\u, \\U, "
                  "\\N{NAME}, lone surrogates, backslash-newline continuations, unknown escapes, raw NUL-free control characters, "
                  "Latin-1 / BMP / astral characters, braces and percent signs, the other quote kind, '??=' look-alikes, backslash "
                  "runs, real newlines and CRLF in triple-quoted literals, implicit concatenation of 2-3 literals with mixed "
                  "prefixes, and lengths from 0 to ~200 KiB; source files in UTF-8 and (a quarter) Latin-1 with a coding cookie. "
                  "Each module is compiled under CYTHON_COMPRESS_STRINGS = 0, 1 (zlib), 2 (bz2), 90 (lzss) and each value is "
                  "compared with CPython's. Sampling, not proof.",
    "level_note": "Trusts CPython 3.12 importing the same source file as the reference; zstd (setting 3) needs Python >= 3.14 and is "
                  "not exercised (the setting falls back to lzss here); compiled modules run in isolated runner subprocesses.",
}
CONFIGS = [("none", ["CYTHON_COMPRESS_STRINGS=0"]), ("zlib", ["CYTHON_COMPRESS_STRINGS=1"]),
           ("bz2", ["CYTHON_COMPRESS_STRINGS=2"]), ("lzss", ["CYTHON_COMPRESS_STRINGS=90"])]
NLIT = 30
FILLER = "'" + "".join("spam %d and eggs, " % (i % 7) for i in range(90)) + "'"
FILLER_POW2 = "'" + ("".join("spam %d and eggs, " % (i % 7) for i in range(300)))[:4096] + "'"


def _value(text):
    with warnings.catch_warnings():
        warnings.simplefilter("ignore")
        return eval(compile(text, "<c10>", "eval"))


def nontrivial(lit, value):
    k = lit["kinds"]
    if any(x in k for x in ("simple", "octal", "hex", "u4", "U8", "named", "unknown", "backslashes", "linecont", "rawbs",
                            "bytes-nonescape", "nonascii", "ctrl-raw", "crlf")) or any(x.startswith("concat") for x in k):
        return True
    return len(value) > 1990


def make_module(lits, uid, latin1):
    head = "# -*- coding: latin-1 -*-\n" if latin1 else ""
    head += "LOG = []\n"
    items = []
    for i, lit in enumerate(lits):
        name = "%s_%d" % (uid, i)
        src = "def f_%s():\n    return %s\nX_%s = %s\n" % (name, lit["text"], name, lit["text"])
        items.append({"src": src, "cases": [{"expr": "M.f_%s()" % name}, {"expr": "M.X_%s" % name}], "lit": lit})
    # every other module: the filler is exactly 4096 characters long, so that the longest string constant of the
    # module (unless a generated literal is longer) has a power-of-two length - the string table stores lengths in
    # a bit field whose width is computed from the longest one
    filler = FILLER_POW2 if sum(map(ord, str(uid))) % 2 == 0 else FILLER
    fill = {"src": "def f_%s_fill():\n    return %s\n" % (uid, filler), "cases": [{"expr": "M.f_%s_fill()" % uid}],
            "lit": {"text": filler, "kinds": {"plain", "filler"}, "family": "str"}}
    return head, items + [fill]


def build_and_run(head, items, name, outdir, encoding, configs=CONFIGS):
    """-> ("ok", ref_outcomes, {cfg: outcomes}, markers) | ("cyerror", errors) | ("ccerror", cfg, text)"""
    src = head + "\n".join(it["src"] for it in items) + "\n"
    d = os.path.join(outdir, name)
    os.makedirs(d, exist_ok=True)
    path = os.path.join(d, name + ".py")
    with open(path, "w", encoding=encoding, newline="") as f:
        f.write(src)
    try:
        c_path = cybuild.cython_compile(path)
    except cybuild.CythonError as e:
        return ("cyerror", e.errors)
    with open(c_path, encoding="utf-8", errors="replace") as f:
        markers = sorted(set(re.findall(r"/\* compression: (\w+) ", f.read())))
    cases = [c for it in items for c in it["cases"]]
    imp, ref = runner.run_cases("py", path, name, cases)
    if imp is None or imp[0] != "ok":
        return ("ref-import", imp)
    got = {}
    for cfg, defines in configs:
        so_dir = os.path.join(d, "so_" + cfg)
        os.makedirs(so_dir, exist_ok=True)
        so = os.path.join(so_dir, name + cybuild.EXT_SUFFIX)
        try:
            cybuild.cc(c_path, so, defines=defines)
        except cybuild.CCError as e:
            return ("ccerror", cfg, str(e)[-1500:])
        imp_c, out = runner.run_cases("so", so, name, cases)
        if imp_c is None or imp_c[0] != "ok":
            out = [["import-failed", diffmod.json_short(imp_c, 300)]] * len(cases)
        got[cfg] = out
    return ("ok", ref, got, markers)


def _charcat(ch):
    if ch is None:
        return "end"
    o = ch if isinstance(ch, int) else ord(ch)
    if o == 0:
        return "nul"
    if o == 0x5c:
        return "backslash"
    if o in (0x22, 0x27):
        return "quote"
    if o == 10:
        return "newline"
    if o == 13:
        return "cr"
    if o < 32 or o == 127:
        return "ctrl"
    if o < 128:
        return "ascii"
    if o < 256:
        return "latin1"
    if 0xD800 <= o <= 0xDFFF:
        return "surrogate"
    if o < 0x10000:
        return "bmp"
    return "astral"


def diff_label(expected, r, g):
    """expected: the Python value; r, g canon outcomes"""
    if g[0] == "import-failed":
        m = re.search(r'"exc", "(\w+)"', str(g[1]))
        return "import-failed:%s" % (m.group(1) if m else "?")
    if g[0] != "ok":
        return "%s:%s" % (g[0], g[1] if len(g) > 1 and isinstance(g[1], str) else "")
    if r[0] != "ok":
        return "ref-" + r[0]
    if r[1][0] != g[1][0]:
        return "type:%s->%s" % (r[1][0], g[1][0])
    try:
        got = eval(g[1][1]) if g[1][0] in ("str", "bytes") else None
    except Exception:
        got = None
    if got is None or not isinstance(expected, (str, bytes)):
        return "value"
    n = min(len(expected), len(got))
    i = 0
    while i < n and expected[i] == got[i]:
        i += 1
    return "at-%s" % _charcat(expected[i] if i < len(expected) else None)


def prefix_class(lit):
    ps = sorted(k[7:] for k in lit["kinds"] if k.startswith("prefix:"))
    raw = any("r" in p for p in ps)
    f = any("f" in p for p in ps)
    return ("raw" if raw else "cooked") + ("+f" if f else "")


def _isolate(head, items, name, outdir, encoding, part):
    """Cython rejected the module: find the items it rejects alone (Cython only), report them, return the rest."""
    good = []
    for j, it in enumerate(items):
        d = os.path.join(outdir, name + "_iso")
        os.makedirs(d, exist_ok=True)
        p = os.path.join(d, "i%d.py" % j)
        with open(p, "w", encoding=encoding, newline="") as f:
            f.write(head + it["src"])
        try:
            cybuild.cython_compile(p)
            good.append(it)
        except cybuild.CythonError as e:
            msgs = diffmod.cy_error_messages(e.errors)[:1] or [str(e.errors[-1:])[:80]]
            crashed = any("Compiler crash" in x for x in e.errors)
            part.count("compile_rejected_items")
            part.violation("compile-rejected:%s:%s" % ("crash" if crashed else "error", re.sub(r"\d+", "N", msgs[0])[:60]),
                           {"kind": "module", "head": head, "src": it["src"], "exprs": [c["expr"] for c in it["cases"]],
                            "encoding": encoding, "literal": it["lit"]["text"][:2000]},
                           "Cython rejects a literal that CPython accepts: %s: %s" % (it["lit"]["text"][:120], "; ".join(msgs)))
        except Exception as e:
            part.count("compile_rejected_items")
            part.violation("compile-rejected:exception:%s" % type(e).__name__,
                           {"kind": "module", "head": head, "src": it["src"], "exprs": [c["expr"] for c in it["cases"]],
                            "encoding": encoding, "literal": it["lit"]["text"][:2000]},
                           "compiler raised %s: %s for literal %s" % (type(e).__name__, e, it["lit"]["text"][:120]))
    return good


def _shard(arg):
    seed, shard, plan = arg
    tree.activate_view()
    part = harness.Part()
    outdir = os.path.join(tree.workdir(), "c10", "s%d" % shard)
    if plan["kind"] == "chars":
        _char_module(part, seed, shard, outdir)
        return part
    latin1 = plan["latin1"]
    encoding = "latin-1" if latin1 else "utf-8"
    lits = []
    for lit in hyp.draw_many(strlit.literal(latin1), NLIT * 2, seed, "c10", shard)[1:]:
        try:
            lit["value"] = _value(lit["text"])
        except SyntaxError:
            part.count("generator_invalid_literals")
            continue
        lits.append(lit)
        if len(lits) >= NLIT:
            break
    for t in plan["long"]:
        for lit in hyp.draw_many(strlit.literal(latin1, t), 4, seed, "c10long", shard, t)[1:]:
            try:
                lit["value"] = _value(lit["text"])
            except SyntaxError:
                continue
            lit["kinds"] = set(lit["kinds"]) | {"long:%d" % t}
            lits.append(lit)
            break
    uid = "%d" % shard
    head, items = make_module(lits, uid, latin1)
    name = "c10m_%d" % shard
    res = build_and_run(head, items, name, outdir, encoding)
    if res[0] == "cyerror":
        items = _isolate(head, items, name, outdir, encoding, part)
        res = build_and_run(head, items, name + "g", outdir, encoding) if items else ("empty",)
    if res[0] == "ccerror":
        part.violation("build:ccerror:%s" % res[1], {"kind": "module", "head": head, "src": "\n".join(it["src"] for it in items),
                                                     "exprs": [], "encoding": encoding, "configs": [res[1]]},
                       "generated C does not compile with %s: %s" % (res[1], res[2][-400:]))
        return part
    if res[0] != "ok":
        if res[0] == "ref-import":
            raise RuntimeError("reference import failed: %r" % (res[1],))
        return part
    _, ref, got, markers = res
    for mk in markers:
        part.classes["module-emits-compression:" + mk] += 1
    if not markers:
        part.classes["module-emits-compression:NONE"] += 1
    k = 0
    for it in items:
        lit = it["lit"]
        for ci, c in enumerate(it["cases"]):
            r = ref[k]
            where = "function" if ci == 0 else "module-attr"
            value = lit.get("value")
            bad = {}
            for cfg, _ in CONFIGS:
                g = got[cfg][k]
                if "filler" not in lit["kinds"]:
                    part.case([lit["text"], where, cfg], nontrivial(lit, value), sorted(lit["kinds"]) + [
                        "family:" + lit["family"], "config:" + cfg, "len:" + _lenclass(value)],
                        sample={"literal": lit["text"][:100], "via": where, "config": cfg, "cpython": diffmod.json_short(r, 100)})
                if diffmod.compare(r, g, "full") is not None:
                    bad[cfg] = g
            if bad:
                g0 = list(bad.values())[0]
                same = all(v == g0 for v in bad.values())
                which = "all-configs" if len(bad) == len(CONFIGS) and same else "cfg=" + "+".join(sorted(bad))
                bucket = "diff:%s:%s:%s:%s" % (lit["family"], prefix_class(lit), diff_label(value, r, g0), which)
                part.violation(bucket, {"kind": "module", "head": head, "src": "\n".join(x["src"] for x in items),
                                        "item_src": it["src"], "exprs": [c["expr"]], "encoding": encoding,
                                        "configs": sorted(bad), "literal": lit["text"][:2000]},
                               "%s = %s under %s: CPython %s vs compiled %s" % (
                                   c["expr"], lit["text"][:120], "/".join(sorted(bad)), diffmod.json_short(r, 160),
                                   diffmod.json_short(g0, 160)))
            k += 1
    return part


def _lenclass(v):
    n = len(v) if v is not None else -1
    if n <= 1:
        return str(n)
    if n < 1990:
        return "<1990"
    if n < 65536:
        return "1990..65535"
    return ">=65536"


def _char_module(part, seed, shard, outdir):
    bodies = strlit.CHAR_BODIES
    src = []
    cases = []
    expect = []
    for i, b in enumerate(bodies):
        try:
            v = _value("b'%s'" % b if b != "'" else 'b"\'"')
        except SyntaxError:
            continue
        if len(v) != 1:
            continue
        src.append("def c_%d():\n    return <unsigned char>c'%s'\n" % (i, b))
        cases.append({"expr": "M.c_%d()" % i})
        expect.append((b, v[0]))
    text = "\n".join(src)
    try:
        so = cybuild.build(text, "c10chars", os.path.join(outdir, "chars"), ext=".pyx")
    except cybuild.CythonError as e:
        part.violation("char:compile-rejected", {"kind": "chars", "src": text[:3000]},
                       "Cython rejects the char-literal module: %s" % "; ".join(diffmod.cy_error_messages(e.errors)[:3]))
        return
    imp, out = runner.run_cases("so", so, "c10chars", cases)
    for (b, want), g in zip(expect, out):
        nt = b.startswith("\\") or not b.isalnum()
        part.case(["char", b], nt, ["char-literal", "char:" + ("escape" if b.startswith("\\") else "raw")],
                  sample={"literal": "c'%s'" % b, "cpython_byte": want, "compiled": diffmod.json_short(g, 60)})
        if g != ["ok", ["int", str(want)]]:
            part.violation("char:%s" % ("escape:" + b[1:2] if b.startswith("\\") else "raw:" + _charcat(b)),
                           {"kind": "char", "body": b, "want": want},
                           "<unsigned char>c'%s' is %s, CPython's b'%s'[0] is %d" % (b, diffmod.json_short(g, 80), b, want))


# ---------------------------------------------------------------------------------------------- reduce / run / replay

def _replay_module(case, outdir, tag):
    items = [{"src": case["src"], "cases": [{"expr": e} for e in case["exprs"]]}]
    cfgs = [c for c in CONFIGS if not case.get("configs") or c[0] in case["configs"]]
    res = build_and_run(case["head"], items, tag, outdir, case.get("encoding", "utf-8"), cfgs)
    if res[0] == "cyerror":
        return True, "Cython rejects the module: %s" % "; ".join(diffmod.cy_error_messages(res[1])[:2] or [str(res[1])[-200:]])
    if res[0] == "ccerror":
        return True, "C compile error under %s: %s" % (res[1], res[2][-300:])
    if res[0] != "ok":
        return False, "reference failed: %r" % (res[1],)
    _, ref, got, _ = res
    for cfg, out in got.items():
        for e, r, g in zip(case["exprs"], ref, out):
            if diffmod.compare(r, g, "full") is not None:
                return True, "%s under %s: CPython %s vs compiled %s" % (e, cfg, diffmod.json_short(r, 200), diffmod.json_short(g, 200))
    return False, "all configurations agree with CPython"


def _reduce_one(job):
    bucket, case, work, idx = job
    tree.activate_view()
    if "item_src" not in case:
        return bucket, case
    outdir = os.path.join(work, "c10red%d" % idx)
    filler = "def f_fill():\n    return %s\n" % FILLER
    for k, src in enumerate((case["item_src"], case["item_src"] + filler)):
        small = dict(case, src=src)
        if _replay_module(small, outdir, "r%d" % k)[0]:
            small.pop("item_src", None)
            return bucket, small
    full = dict(case)
    full.pop("item_src", None)
    return bucket, full


def run(ctx):
    if ctx.quick:
        plans = [{"kind": "lits", "latin1": s % 4 == 3, "long": ([2000] if s == 1 else [66000] if s == 2 else [200000] if s == 5 else [])}
                 for s in range(8)]
    else:
        plans = [{"kind": "lits", "latin1": s % 4 == 3,
                  "long": ([2000, 1995] if s % 8 == 1 else [66000] if s % 8 == 2 else [200000] if s % 16 == 5 else [])} for s in range(160)]
    plans.append({"kind": "chars"})
    ctx.pmap(_shard, [(ctx.seed, i, p) for i, p in enumerate(plans)])
    findings = harness.load_findings()
    firsts = {}
    for bucket, case, what in ctx.violations:
        if bucket.startswith("diff:") and bucket not in firsts and len(firsts) < 8 \
                and harness.match_finding(PID, bucket, case, findings) is None:
            firsts[bucket] = case
    small = dict(ctx.pmap(_reduce_one, [(b, c, ctx.work, i) for i, (b, c) in enumerate(firsts.items())])) if firsts else {}
    out = []
    done = set()
    for bucket, case, what in ctx.violations:
        if bucket in small and bucket not in done:
            done.add(bucket)
            case = small[bucket]
        out.append((bucket, {k: v for k, v in case.items() if k != "item_src"}, what))
    ctx.violations = out
    need = ["module-emits-compression:lzss", "module-emits-compression:zlib", "module-emits-compression:bz2"]
    missing = [c for c in need if not ctx.classes.get(c)]
    ctx.extra["compressed_branches_emitted"] = {c: ctx.classes.get(c, 0) for c in need + ["module-emits-compression:NONE"]}
    if missing and not ctx.violations:
        raise RuntimeError("generator self-check: no module emitted the branch(es) %s" % missing)
    ctx.rule = ("Hypothesis literal SOURCE TEXT: prefixes {'',u,b,r,br/rb,f,fr/rf in all cases} x quotes {' \" ''' \"\"\"} x pieces "
                "{plain, simple escapes, octal 1-3 digits incl. > 0o377, \\x, \\u, \\U, \\N{NAME}, lone surrogates, backslash-newline, "
                "unknown escapes, raw control chars, Latin-1/BMP/astral chars, braces/percent, other quote, ??= look-alikes, backslash "
                "runs, real newlines and CRLF in triple quotes} x implicit concatenation of 1-3 literals (mixed prefixes) x lengths "
                "0..~200 KiB; %d literals + one compressible filler per module, 8 modules quick / 160 thorough (every 4th in Latin-1 "
                "with a coding cookie), each built with CYTHON_COMPRESS_STRINGS = 0, 1, 2, 90; plus one .pyx module of %d char "
                "literals read through <unsigned char>. Oracle = CPython importing the same file. non-trivial = literal has an "
                "escape, a non-ASCII / control character, a concatenation, or is longer than 1990 characters; distinct by (literal "
                "text, access path, configuration)" % (NLIT, len(strlit.CHAR_BODIES)))
    ctx.assumptions = ["CPython 3.12 importing the same source file is the reference (SyntaxWarnings for unknown escapes ignored)",
                       "zstd (CYTHON_COMPRESS_STRINGS=3) needs Python >= 3.14: not exercised",
                       "NUL bytes cannot appear raw in Python source; NUL is generated through escapes only"]


def replay(ctx, case):
    tree.activate_view()
    outdir = os.path.join(ctx.work, "c10replay")
    if case.get("kind") == "char":
        b = case["body"]
        so = cybuild.build("def c():\n    return <unsigned char>c'%s'\n" % b, "c10char1", os.path.join(outdir, "ch"), ext=".pyx")
        imp, out = runner.run_cases("so", so, "c10char1", [{"expr": "M.c()"}])
        if out[0] != ["ok", ["int", str(case["want"])]]:
            return True, "<unsigned char>c'%s' is %s, expected %d" % (b, diffmod.json_short(out[0], 80), case["want"])
        return False, "char literal agrees"
    if case.get("kind") == "chars":
        try:
            cybuild.build(case["src"], "c10chars", os.path.join(outdir, "chs"), ext=".pyx")
        except cybuild.CythonError as e:
            return True, "rejected: %s" % "; ".join(diffmod.cy_error_messages(e.errors)[:2])
        return False, "compiles"
    return _replay_module(case, outdir, "rp")
