"""C27 - cpdef calls reach the most-derived override (DESIGN §4 C27, engine E2 `.pyx`, stateful, E4).

Generated hierarchies of cdef classes with cpdef methods (vlib/gen/cpdefgen.py) are compiled; histories that create
Python subclasses at run time, set / replace / delete the method on Python classes and on instances, create further
instances and interleave Python-level calls (obj.m()), C-level calls through a typed self (obj.c_m()) and through a
typed argument (M.f_m_<cls>(obj)) are replayed on the compiled module and on a pure-Python mirror hierarchy.
Every call must return the tag of the implementation that Python attribute lookup selects (= the mirror's result).
"""
import os

from vlib import diffmod, harness, hyp, tree, twin
from vlib.gen import cpdefgen as cg

PID = "C27"
LEVEL = "exploration"
META = {
    "technique": "stateful differential testing: generated cdef-class hierarchies with cpdef methods vs a pure-Python mirror hierarchy under generated histories of class/instance attribute mutations interleaved with Python-level and C-level calls; repeated with the dict-version caches forced on",
    "level_text": "Exploration: hierarchies (depth 1-3) of cdef classes with two cpdef methods, 0-2 overridden per level, optionally a `cdef dict __dict__` level, are extended at run time by up to three (nested) Python subclasses; histories of ~25 steps create instances of cdef and Python classes, set/replace/delete overrides on Python classes and in instance dicts, and call the methods from Python, through the vtable with a typed self and with a typed argument of every compatible cdef class, alternating between instances (the override cache is per function). Each step's result is compared with the same history on a pure-Python mirror (def methods). The generated C is compiled twice: default macros and -DCYTHON_USE_DICT_VERSIONS=1 -DCYTHON_USE_PYTYPE_LOOKUP=1 (cached override check; off by default on 3.12); the thorough tier adds -DCYTHON_USE_TYPE_SLOTS=0. Histories run back to back in one process so the static per-function caches carry over. Sampling, no proof.",
    "level_note": "Trusts CPython attribute lookup on the mirror classes. Mutations are only generated where both worlds allow them (Python classes; instances with a __dict__). Module-level cpdef functions with Options.lookup_module_cpdef and the Limited-API cell are not covered. Compiled code runs in isolated runner subprocesses.",
}
N_HIER, N_HIST = 16, 16
CELLS_Q = {"dictver": ["CYTHON_USE_DICT_VERSIONS=1", "CYTHON_USE_PYTYPE_LOOKUP=1"]}
CELLS_T = dict(CELLS_Q, noslots=["CYTHON_USE_TYPE_SLOTS=0"])


def _draw(seed, shard, nh, nhist):
    hs = hyp.draw_many(cg.hierarchy(), nh + 1, seed, "c27h", shard)[1:]
    out = []
    for i, h in enumerate(hs):
        h = dict(h, id=str(i))
        hists = hyp.draw_many(cg.history(h), nhist + 1, seed, "c27s", shard, i)[1:]
        out.append((h, hists))
    return out


def _kind(tag):
    if not isinstance(tag, str):
        return "?"
    if tag.startswith("EXC:"):
        return tag
    if tag == "-":
        return "-"
    if ".inst#" in tag:
        return "inst"
    if tag.startswith("P"):
        return "pycls"
    if tag.startswith("L"):
        return "cdef"
    return "?"


def _decode(outcome):
    """canon list of str -> python list, or None"""
    try:
        if outcome[0] != "ok" or outcome[1][0] != "list":
            return None
        return [eval(x[1]) if x[0] == "str" else None for x in outcome[1][1]]
    except Exception:
        return None


def _nontrivial(steps, ref):
    last = {}
    for s, r in zip(steps, ref):
        if s[0] in ("c", "f", "u"):
            key = (s[1], s[2])
            if key in last and last[key] != r:
                return True
            last[key] = r
    return False


def _objkind(h, steps, var):
    cls = None
    for s in steps:
        if s[0] == "new" and s[1] == var:
            cls = s[2]
    if cls is None:
        return "?"
    if cls.startswith("P"):
        return "pysub"
    k = int(cls[1:cls.index("_")])
    return "cdef-dict" if cg.has_dict(h, k) else "cdef"


def _bucket(cell, h, steps, ref, got):
    for i, (r, g) in enumerate(zip(ref, got)):
        if r != g:
            s = steps[i]
            prev = "-"
            for t in reversed(steps[:i]):
                if t[0] in ("setcls", "delcls", "setinst", "delinst", "pyclass", "new"):
                    prev = t[0]
                    break
            var = s[1] if s[0] in ("py", "c", "f", "u", "setinst", "delinst") else "-"
            return "%s;step=%s;after=%s;obj=%s;dictlevel=%s;want=%s;got=%s" % (
                cell, s[0], prev, _objkind(h, steps, var), h["dict_level"], _kind(r), _kind(g))
    return "%s;length;want=%d;got=%d" % (cell, len(ref), len(got))


def _compare(part, h, steps, expr, ref_o, got_o, cell):
    ref = _decode(ref_o)
    if ref is None:
        raise RuntimeError("mirror history failed: %r" % (ref_o,))
    got = _decode(got_o)
    nt = _nontrivial(steps, ref)
    labels = ["cell:" + cell, "depth:%d" % len(h["levels"]), "dictlevel:%s" % h["dict_level"]]
    labels += sorted(set("step:" + s[0] for s in steps))
    part.case([cell, h, steps], nt, labels, sample={"hierarchy": h, "steps": steps[:14], "mirror": ref[:14], "cell": cell})
    if got is None:
        part.violation("%s;run;%s" % (cell, diffmod.json_short(got_o, 60)), {"h": h, "steps": steps, "cell": cell},
                       "history did not complete in the compiled module: %s" % diffmod.json_short(got_o))
        return
    if got != ref:
        b = _bucket(cell, h, steps, ref, got)
        i = next((k for k, (r, g) in enumerate(zip(ref, got)) if r != g), -1)
        part.violation(b, {"h": h, "steps": steps, "cell": cell},
                       "step %d %s: mirror %r vs compiled %r | hierarchy %s | steps %s" % (
                           i, steps[i] if i >= 0 else "?", ref[i] if i >= 0 else None, got[i] if i >= 0 else None,
                           h, steps[:i + 1]))


def _defs(cell, tier_cells):
    return tier_cells.get(cell)


def _shard(arg):
    seed, shard, nh, nhist, cells = arg
    tree.activate_view()
    part = harness.Part()
    items = _draw(seed, shard, nh, nhist)
    hs = [h for h, _ in items]
    flat, meta = [], []
    for h, hists in items:
        for steps in hists:
            flat.append({"expr": "run_history(M, %r)" % (steps,)})
            meta.append((h, steps))
    name = "c27m%d" % shard
    res = twin.run(cg.render_module(hs, True), cg.render_module(hs, False), name, os.path.join(tree.workdir(), "c27"),
                   flat, setup=cg.SETUP, extra_cells=cells)
    if res.status != "ok":
        part.violation("build;%s" % res.status, {"kind": "module", "hs": hs}, "module build/import: %s" % str(res.detail)[:500])
        return part
    for (h, steps), c, r, g in zip(meta, flat, res.ref, res.got):
        _compare(part, h, steps, c["expr"], r, g, "default")
    for cell, (imp, outs) in sorted(res.extra.items()):
        if outs is None or imp[0] != "ok":
            part.violation("build;cell-%s" % cell, {"kind": "module", "hs": hs, "cell": cell}, "cell build/import failed: %s" % str(imp)[:400])
            continue
        for (h, steps), c, r, g in zip(meta, flat, res.ref, outs):
            _compare(part, h, steps, c["expr"], r, g, cell)
    part.count("modules")
    part.count("hierarchies", len(hs))
    return part


def run(ctx):
    cells = CELLS_Q if ctx.quick else CELLS_T
    nshards = 8 if ctx.quick else 64
    ctx.pmap(_shard, [(ctx.seed, s, N_HIER, N_HIST, cells) for s in range(nshards)])
    ctx.rule = ("Hypothesis-drawn hierarchies (depth 1-3, cpdef m/n overridden per level with p=0.5, optional cdef __dict__ level), "
                "%d per module, %d histories each: opening (Python subclass, instance, two calls), 12 drawn actions "
                "(call py/c/f, new instance, new Python (sub)class, set/del override on a Python class, set/del instance "
                "attribute; 70%% of mutations followed by a call), closing round of py+c calls on every object; cells: default, "
                "dict-version caches on. oracle = same history on the pure-Python mirror. non-trivial = some C-level call (c/f) on "
                "an (object, method) returns a different implementation than the previous C-level call on it; distinct by "
                "(cell, hierarchy, history)" % (N_HIER, N_HIST))
    ctx.assumptions = ["CPython attribute lookup on the mirror hierarchy defines the expected implementation",
                       "mutations only where both worlds permit them (Python classes, instances with __dict__)"]


def _replay_one(arg):
    work, case = arg
    tree.activate_view()
    if case.get("kind") == "module":
        hs = case["hs"]
        res = twin.run(cg.render_module(hs, True), cg.render_module(hs, False), "c27r" + harness.khash(case),
                       os.path.join(work, "c27replay"), [], setup=cg.SETUP)
        return res.status != "ok", "status %s" % res.status
    h, steps, cell = case["h"], case["steps"], case.get("cell", "default")
    cells = {cell: CELLS_T[cell]} if cell != "default" else None
    res = twin.run(cg.render_module([h], True), cg.render_module([h], False), "c27r" + harness.khash(case),
                   os.path.join(work, "c27replay"), [{"expr": "run_history(M, %r)" % (steps,)}], setup=cg.SETUP,
                   extra_cells=cells)
    if res.status != "ok":
        return True, "build/import status %s: %s" % (res.status, str(res.detail)[:300])
    got_o = res.got[0] if cell == "default" else res.extra[cell][1][0]
    ref, got = _decode(res.ref[0]), _decode(got_o)
    if ref is None:
        return False, "mirror failed"
    if got == ref:
        return False, "history agrees with the mirror"
    return True, "compiled %r vs mirror %r" % (got, ref)


def replay(ctx, case):
    return twin.cached_replay(ctx, PID, case, _replay_one)
