"""C12 - module string-table compression round-trips (DESIGN §4 C12; E1 + E5 harness).

compressor  : Cython/LZSS.py:lzss_compress, imported from the working-tree source view (pure Python)
decompressor: the text of `__pyx_lzss_decompress` is cut, unmodified, out of the working tree's
              Cython/Utility/StringTools.c (section DecompressString_LZSS) at check time and compiled with
              clang -O1 -g -fsanitize=address,undefined into a small server executable.  For every record the server
              copies the compressed bytes into an EXACT-SIZE heap block and decompresses into an EXACT-SIZE heap block
              of the original length, so any read or write outside either buffer is an AddressSanitizer abort.
oracle      : output == original, consumed == len(compressed)  (what __Pyx_DecompressString_LZSS checks), no
              sanitizer report.  An independent model decoder (vlib/lzssref.py) classifies the back-references of
              each stream for the coverage accounting and names the token at the first wrong byte in the bucket.
"""
import hashlib
import os
import re
import signal
import struct
import subprocess
import tempfile

from hypothesis import strategies as st

from vlib import harness, hyp, lzssref, tree

PID = "C12"
LEVEL = "exploration"
META = {
    "technique": "property-based round-trip testing: generated repeat programs compressed by Cython/LZSS.py and decompressed by the "
                 "C decompressor text cut from Utility/StringTools.c, compiled with clang ASan/UBSan into an exact-size-buffer server",
    "level_text": "Exploration with a small exhaustive core: all strings of length <= 12 over 2 letters and <= 7 over 3 letters, "
                  "Hypothesis 'repeat programs' (literal runs / copies whose stored distance and length sit on every encoding "
                  "boundary of the three back-reference forms and on the window limit; low-entropy fillers), and identifier tables "
                  "built from the working tree's own sources are compressed by lzss_compress and decompressed by the unmodified C "
                  "function under AddressSanitizer/UBSan with exact-size heap buffers; output, consumed length and sanitizer "
                  "silence are checked.  The generator must hit every encoding class and boundary or the run is a harness error.",
    "level_note": "Trusts clang 14 ASan/UBSan to report out-of-bounds accesses of heap blocks; only __pyx_lzss_decompress is "
                  "compiled stand-alone (the PyBytes wrapper around it is exercised end-to-end by C10); empty input is excluded "
                  "(the compiler never emits a compressed table for it); the atheris campaign of the design is not implemented.",
}

KINDS = ("7bit", "9bit", "14bit")
GAP_MARKS = {0: "0", 1: "1", 0x7F: "0x7f", 0x80: "0x80", 0x80 + 511: "0x80+511", 0x80 + 512: "0x80+512",
             0x80 + 16383: "0x80+16383"}
LEN_MARKS = {3: "3", 4: "4", 34: "34", 35: "35", 258: "258"}
NEEDED = (["ref:" + k for k in KINDS] + ["gap:" + v for v in GAP_MARKS.values()] + ["len:" + v for v in LEN_MARKS.values()]
          + ["copy-beyond-window", "padded-flag-group", "full-flag-group", "ref:7bit@gap:0x7f", "ref:9bit@gap:0x80",
             "ref:9bit@gap:0x80+511", "ref:14bit@gap:0x80+512", "ref:14bit@gap:0x80+16383", "ref:14bit-because-length>34",
             "ref:7bit@len:258", "ref:9bit@len:34", "ref:14bit@len:35", "ref:14bit@len:258", "ref:14bit@len:4", "ref:9bit@len:3"])
MAXSIZE = 100 * 1024


# ---------------------------------------------------------------------------------------------- C server

SERVER_MAIN = r"""
/* One record = [u32 clen][u32 n][clen bytes]; answer = [u64 consumed][n bytes].  A sanitizer report or a signal ends
   the process (the driver restarts it); forking per record was measured at 0.1 s/record under ASan and dropped. */
static int read_full(void *p, size_t n) { return n == 0 || fread(p, 1, n, stdin) == n; }

int main(void) {
    for (;;) {
        uint32_t hdr[2];
        if (!read_full(hdr, sizeof(hdr))) return 0;
        size_t clen = hdr[0], n = hdr[1];
        uint8_t *src = (uint8_t *) malloc(clen);      /* exact size: ASan traps any access outside */
        uint8_t *dst = (uint8_t *) malloc(n);
        if (!src || !dst) return 3;
        if (!read_full(src, clen)) return 4;
        memset(dst, 0xA5, n);
        uint64_t consumed = (uint64_t) __pyx_lzss_decompress(src, dst, n);
        fwrite(&consumed, sizeof(consumed), 1, stdout);
        fwrite(dst, 1, n, stdout);
        fflush(stdout);
        free(src);
        free(dst);
    }
}
"""

SERVER_HEAD = """
#include <stdint.h>
#include <stddef.h>
#include <stdio.h>
#include <stdlib.h>
#include <string.h>
#define CYTHON_UNUSED __attribute__((unused))
#define CYTHON_SMALL_CODE
#define likely(x)   __builtin_expect(!!(x), 1)
#define unlikely(x) __builtin_expect(!!(x), 0)
"""


def extract_decoder(view):
    """Text of the function __pyx_lzss_decompress, cut from section DecompressString_LZSS of StringTools.c."""
    path = os.path.join(view, "Cython", "Utility", "StringTools.c")
    with open(path, encoding="utf-8") as f:
        text = f.read()
    m = re.search(r"^/{10,} DecompressString_LZSS /{10,}\n(.*?)(?=^/{10,} )", text, re.S | re.M)
    if not m:
        raise RuntimeError("section DecompressString_LZSS not found in %s" % path)
    sec = m.group(1)
    m = re.search(r"^[^\n]*\b__pyx_lzss_decompress\s*\([^)]*\)\s*\{", sec, re.M)
    if not m:
        raise RuntimeError("function __pyx_lzss_decompress not found in section DecompressString_LZSS")
    start = m.start()
    depth = 0
    i = m.end() - 1
    while i < len(sec):
        c = sec[i]
        if c == "{":
            depth += 1
        elif c == "}":
            depth -= 1
            if depth == 0:
                return sec[start:i + 1]
        i += 1
    raise RuntimeError("unbalanced braces in __pyx_lzss_decompress")


def build_server(outdir, view):
    os.makedirs(outdir, exist_ok=True)
    src = os.path.join(outdir, "lzss_server.c")
    exe = os.path.join(outdir, "lzss_server")
    with open(src, "w") as f:
        f.write(SERVER_HEAD + "\n/* ---- cut from Cython/Utility/StringTools.c ---- */\n" + extract_decoder(view)
                + "\n/* ---- end of cut ---- */\n" + SERVER_MAIN)
    cmd = ["clang", "-O1", "-g", "-fsanitize=address,undefined", "-fno-sanitize-recover=undefined",
           "-fno-omit-frame-pointer", "-o", exe, src]
    p = subprocess.run(cmd, stdout=subprocess.PIPE, stderr=subprocess.STDOUT, text=True)
    if p.returncode != 0:
        raise RuntimeError("cannot build the decompressor server: %s\n%s" % (" ".join(cmd), p.stdout[-3000:]))
    return exe


class Server:
    """Persistent decompressor process; call() -> ("ok", consumed, out) | ("crash", label, report)."""

    def __init__(self, exe):
        self.exe = exe
        self.proc = None
        self.err = None

    def _start(self):
        self.err = tempfile.TemporaryFile(dir=os.path.dirname(self.exe))
        env = dict(os.environ)
        env.pop("LD_PRELOAD", None)
        # symbolize=0: llvm-symbolizer costs seconds per report; the report kind and READ/WRITE are what is used
        env["ASAN_OPTIONS"] = ("detect_leaks=0:abort_on_error=0:allocator_may_return_null=1:symbolize=0:"
                               "fast_unwind_on_fatal=1:malloc_context_size=0:print_legend=0:print_summary=0")
        env["UBSAN_OPTIONS"] = "halt_on_error=1:print_stacktrace=0:symbolize=0"
        self.proc = subprocess.Popen([self.exe], stdin=subprocess.PIPE, stdout=subprocess.PIPE, stderr=self.err, env=env)

    def close(self):
        if self.proc is not None:
            try:
                self.proc.stdin.close()
                self.proc.wait(timeout=10)
            except Exception:
                self.proc.kill()
            self.proc = None
        if self.err is not None:
            self.err.close()
            self.err = None

    def _read(self, n):
        buf = bytearray()
        while len(buf) < n:
            chunk = self.proc.stdout.read(n - len(buf))
            if not chunk:
                return None
            buf += chunk
        return bytes(buf)

    def call(self, comp, n):
        if self.proc is None:
            self._start()
        try:
            self.proc.stdin.write(struct.pack("<II", len(comp), n) + comp)
            self.proc.stdin.flush()
            head = self._read(8)
            body = self._read(n) if head is not None else None
        except (BrokenPipeError, OSError):
            head = body = None
        if head is None or body is None:
            try:
                rc = self.proc.wait(timeout=60)
            except subprocess.TimeoutExpired:
                self.proc.kill()
                rc = self.proc.wait()
            self.err.seek(0)
            report = self.err.read().decode("utf-8", "replace")
            self.proc = None
            self.err.close()
            self.err = None
            return ("crash", _crash_label(rc, report), report[:1500])
        return ("ok", struct.unpack("<Q", head)[0], body)


def _crash_label(rc, report):
    m = re.search(r"ERROR: AddressSanitizer: ([\w-]+)", report)
    if m:
        acc = re.search(r"^(READ|WRITE) of size", report, re.M)
        return "asan:%s:%s" % (m.group(1), acc.group(1) if acc else "-")
    m = re.search(r"runtime error: ([A-Za-z -]+)", report)
    if m:
        return "ubsan:" + "-".join(m.group(1).split()[:5])
    if rc is not None and rc < 0:
        try:
            return "signal:" + signal.Signals(-rc).name
        except ValueError:
            return "signal:%d" % -rc
    return "exit:%s" % rc


# ---------------------------------------------------------------------------------------------- evaluation

def evaluate(data, server):
    """-> (bucket | None, what, classes, nontrivial)"""
    from Cython import LZSS
    try:
        comp = LZSS.lzss_compress(data)
    except Exception as e:
        return "compressor-raised:%s" % type(e).__name__, "lzss_compress raised %s: %s" % (type(e).__name__, e), [], False
    if not isinstance(comp, (bytes, bytearray)):
        return "compressor-type", "lzss_compress returned %s" % type(comp).__name__, [], False
    comp = bytes(comp)
    cls = []
    tokens = None
    try:
        mout, mcons, tokens = lzssref.decode(comp, len(data))
    except lzssref.StreamError as e:
        mout, mcons = None, None
        cls.append("model:undecodable")
    nrefs = 0
    if tokens is not None:
        for kind, start, length, gap in tokens:
            if kind == "lit":
                continue
            nrefs += 1
            cls.append("ref:" + kind)
            if gap in GAP_MARKS:
                cls.append("gap:" + GAP_MARKS[gap])
                cls.append("ref:%s@gap:%s" % (kind, GAP_MARKS[gap]))
            if length in LEN_MARKS:
                cls.append("len:" + LEN_MARKS[length])
                cls.append("ref:%s@len:%s" % (kind, LEN_MARKS[length]))
            if kind == "14bit" and gap < 0x80 + 512:
                cls.append("ref:14bit-because-length>34")
        cls.append("padded-flag-group" if len(tokens) % 8 else "full-flag-group")
        cls = sorted(set(cls))          # histogram counts CASES having the class
    r = server.call(comp, len(data))
    if r[0] == "crash":
        return ("sanitizer:" + r[1], "decompressing the %d-byte stream of a %d-byte string: %s || %s" % (
            len(comp), len(data), r[1], " | ".join(ln.strip() for ln in r[2][:900].splitlines() if ln.strip() and "====" not in ln)),
                cls, nrefs > 0)
    _, consumed, out = r
    if out != data:
        i = 0
        n = min(len(out), len(data))
        while i < n and out[i] == data[i]:
            i += 1
        tk = "?"
        detail = ""
        if tokens is not None:
            for kind, start, length, gap in tokens:
                if start <= i < start + length:
                    tk = kind
                    detail = "" if kind == "lit" else " inside a %s back-reference with stored distance %d (%s), length %d (%s)" % (
                        kind, gap, _mark(gap, GAP_MARKS), length, _mark(length, LEN_MARKS))
                    break
        return ("mismatch:%s" % tk, "decompressed bytes differ from the original at offset %d of %d%s (stream %d bytes; "
                "original ...%r, got ...%r)" % (i, len(data), detail, len(comp), data[max(0, i - 4):i + 6], out[max(0, i - 4):i + 6]),
                cls, nrefs > 0)
    if consumed != len(comp):
        return ("consumed:%s" % ("short" if consumed < len(comp) else "long"),
                "decompressor consumed %d of %d compressed bytes (output correct)" % (consumed, len(comp)), cls, nrefs > 0)
    if mout is not None and (mout != data or mcons != len(comp)):
        cls.append("model:disagrees-with-c-decoder")
    return None, "", cls, nrefs > 0


def _mark(v, marks):
    if v in marks:
        return marks[v]
    for m in sorted(marks):
        if v < m:
            return "<" + marks[m]
    return ">" + marks[max(marks)]


# ---------------------------------------------------------------------------------------------- generators

def filler(n, seed, alpha):
    """n deterministic pseudo-random bytes over an alphabet of `alpha` symbols (SHAKE-256 of the drawn seed)."""
    if n <= 0:
        return b""
    raw = hashlib.shake_256(b"c12:%d" % seed).digest(n)
    if alpha >= 256:
        return raw
    table = bytes((97 + (i % alpha)) for i in range(256))
    return raw.translate(table)


GAPS = [0, 0, 1, 2, 3, 0x7E, 0x7F, 0x80, 0x81, 0x80 + 510, 0x80 + 511, 0x80 + 512, 0x80 + 513,
        0x80 + 16382, 0x80 + 16383, 0x80 + 16384, 0x80 + 16385, 16384 + 128 + 258, 16384 + 128 + 259, 20000]
LENS = [3, 3, 4, 5, 8, 33, 34, 35, 36, 37, 257, 258, 259, 260, 261, 300, 516, 517, 600]

_op = st.one_of(
    st.tuples(st.just("lit"), st.one_of(st.integers(0, 24), st.integers(0, 600)), st.integers(0, 10 ** 6),
              st.sampled_from([256, 256, 256, 16, 4, 3, 2])),
    st.tuples(st.just("copy"), st.one_of(st.sampled_from(GAPS), st.integers(0, 700)),
              st.one_of(st.sampled_from(LENS), st.integers(3, 40)), st.integers(0, 10 ** 6)),
    st.tuples(st.just("copy"), st.one_of(st.sampled_from(GAPS), st.integers(0, 700)),
              st.one_of(st.sampled_from(LENS), st.integers(3, 40)), st.integers(0, 10 ** 6)),
    st.tuples(st.just("run"), st.integers(0, 255), st.sampled_from([1, 2, 3, 4, 5, 6, 7, 8, 9, 35, 258, 259, 300, 1000, 4096])),
    st.tuples(st.just("rep"), st.binary(min_size=1, max_size=6), st.integers(1, 200)),
    st.tuples(st.just("bytes"), st.binary(min_size=0, max_size=12)),
)
programs = st.lists(_op, min_size=1, max_size=9)


def expand(program):
    """-> (data, has_far_copy)"""
    data = bytearray()
    far = False
    for op in program:
        if len(data) > MAXSIZE:
            break
        k = op[0]
        if k == "lit":
            data += filler(op[1], op[2], op[3])
        elif k == "copy":
            gap, length, seed = op[1], op[2], op[3]
            need = gap + length - len(data)
            if need > 0:
                data += filler(need, seed, 256)       # unique material to copy from / to skip over
            src_end = len(data) - gap
            data += data[src_end - length:src_end]
            if gap > 0x80 + 16383:
                far = True
        elif k == "run":
            data += bytes([op[1]]) * op[2]
        elif k == "rep":
            data += op[1] * op[2]
        else:
            data += op[1]
    return bytes(data[:MAXSIZE + 4096]), far


def _small_exhaustive():
    import itertools
    for n in range(1, 13):
        for t in itertools.product(b"ab", repeat=n):
            yield bytes(t)
    for n in range(1, 8):
        for t in itertools.product(b"abc", repeat=n):
            if 99 in t:                  # strings over {a,b} only were produced above
                yield bytes(t)


_IDENT = re.compile(rb"[A-Za-z_][A-Za-z0-9_]*")


def source_tables(view, quick):
    """Identifier tables as the module string table holds them: sorted distinct identifiers of one source file,
    concatenated without separators (plus the raw text of small files)."""
    out = []
    comp = os.path.join(view, "Cython", "Compiler")
    names = sorted(n for n in os.listdir(comp) if n.endswith(".py"))
    for n in names:
        with open(os.path.join(comp, n), "rb") as f:
            text = f.read()
        ids = sorted(set(_IDENT.findall(text)))
        table = b"".join(ids)[:MAXSIZE]
        if len(table) >= 200:
            out.append((n, table))
        if len(text) <= 20000:
            out.append((n + ":text", text))
    if quick:
        out = [t for t in out if len(t[1]) <= 30000][:24]
    return out


# ---------------------------------------------------------------------------------------------- shards

def _record(part, key, data, bucket, what, cls, nt, origin, case):
    part.case(key, nt, cls + [origin], sample={"origin": origin, "size": len(data), "head": repr(data[:24]),
                                               "classes": sorted(set(cls))[:8]})
    if bucket is not None:
        part.violation(bucket, case, what)


MAX_VIOLATIONS_PER_SHARD = 25      # a sanitizer abort costs a server restart (0.2-1 s); a mass failure must stay bounded


def _fixed_shard(arg):
    exe, shard, nshards, quick = arg
    tree.activate_view()
    part = harness.Part()
    server = Server(exe)
    try:
        todo = [(data.hex(), data, "origin:exhaustive-small") for i, data in enumerate(_small_exhaustive()) if i % nshards == shard]
        todo += [(["table", name], data, "origin:identifier-table")
                 for i, (name, data) in enumerate(source_tables(os.environ["CYVERIF_VIEW"], quick)) if i % nshards == shard]
        for k, (key, data, origin) in enumerate(todo):
            if len(part.violations) >= MAX_VIOLATIONS_PER_SHARD:
                part.count("cases_skipped_after_%d_violations_in_shard" % MAX_VIOLATIONS_PER_SHARD, len(todo) - k)
                break
            bucket, what, cls, nt = evaluate(data, server)
            _record(part, key, data, bucket, what, cls, nt, origin, {"kind": "data", "hex": data.hex()})
    finally:
        server.close()
    return part


def _shrink(data, bucket, server, budget=70):
    """Greedy chunk deletion keeping the same bucket (bounded: every failing evaluation may cost a server restart)."""
    left = [budget]

    def bad(x):
        if left[0] <= 0 or not x:
            return False
        left[0] -= 1
        return evaluate(x, server)[0] == bucket

    size = len(data) // 2
    while size >= 1 and left[0] > 0:
        i = 0
        while i < len(data) and left[0] > 0:
            cand = data[:i] + data[i + size:]
            if bad(cand):
                data = cand
            else:
                i += size
        size //= 2
    return data


def _prog_shard(arg):
    exe, seed, shard, n = arg
    tree.activate_view()
    part = harness.Part()
    server = Server(exe)
    firsts = {}
    try:
        def prop(program):
            data, far = expand(program)
            if not data or len(part.violations) >= MAX_VIOLATIONS_PER_SHARD:
                if data:
                    part.count("cases_skipped_after_%d_violations_in_shard" % MAX_VIOLATIONS_PER_SHARD)
                return
            bucket, what, cls, nt = evaluate(data, server)
            if far:
                cls = cls + ["copy-beyond-window"]
            part.case(data.hex() if len(data) < 64 else hashlib.sha256(data).hexdigest(), nt, cls + ["origin:repeat-program"],
                      sample={"origin": "repeat-program", "program": [list(map(_js, op)) for op in program][:6],
                              "size": len(data), "classes": sorted(set(cls))[:10]})
            if bucket is not None:
                case = {"kind": "data", "hex": data.hex(), "program": [list(map(_js, op)) for op in program]}
                part.violation(bucket, case, what)
                if bucket not in firsts or len(data) < len(firsts[bucket]):
                    firsts[bucket] = data
        # generation only: Hypothesis' own shrinker would spend hundreds of evaluations, each a possible ASan abort
        res = hyp.run_property(prop, programs, n, seed, "c12-prog", shard, shrink=False)
        assert res is None, res
        for bucket, data in sorted(firsts.items()):
            small = _shrink(data, bucket, server)
            b2, what, cls, nt = evaluate(small, server)
            if b2 == bucket:
                part.violations.insert(0, (bucket, {"kind": "data", "hex": small.hex()}, what))
    finally:
        server.close()
    return part


def _js(x):
    return x.hex() if isinstance(x, bytes) else x


def _job(job):
    return {"fixed": _fixed_shard, "prog": _prog_shard}[job[0]](job[1])


# ---------------------------------------------------------------------------------------------- run / replay

def run(ctx):
    view = os.environ["CYVERIF_VIEW"]
    exe = build_server(os.path.join(ctx.work, "c12"), view)
    nprog = 260 if ctx.quick else 8000
    jobs = []
    for s in range(16):
        jobs.append(("prog", (exe, ctx.seed, s, nprog)))
        jobs.append(("fixed", (exe, s, 16, ctx.quick)))
    ctx.pmap(_job, jobs)
    ctx.violations.sort(key=lambda v: len(v[1].get("hex", "")))       # smallest case of each bucket becomes its replay
    ctx.exhaustive = not ctx.violations
    ctx.extra["exhaustive_spaces"] = ["all strings of length 1..12 over {a,b} (8190)",
                                      "all strings of length 1..7 over {a,b,c} that contain c (3025)"]
    ctx.extra["exhaustive_note"] = "exhaustive = the listed tiny spaces were fully enumerated; everything else is sampled"
    ctx.extra["encoding_classes"] = {c: ctx.classes.get(c, 0) for c in NEEDED}
    missing = [c for c in NEEDED if not ctx.classes.get(c)]
    if missing and not ctx.violations:
        raise RuntimeError("generator self-check: no compressed stream of class(es) %s" % missing)
    if ctx.classes.get("model:disagrees-with-c-decoder") and not ctx.violations:
        raise RuntimeError("model decoder (vlib/lzssref.py) disagrees with the C decoder on a stream that round-trips")
    ctx.rule = ("byte strings: ALL strings of length 1..12 over 2 letters and 1..7 over 3 letters; Hypothesis repeat programs "
                "(<= 9 ops: pseudo-random literal runs over 2..256-symbol alphabets, single-byte runs <= 4 KiB, periodic "
                "repeats, copies with stored distance on/around 0,1,0x7f,0x80,0x80+511,0x80+512,0x80+16383,0x80+16384 and "
                "the window limit and length on/around 3,4,34,35,258,259; total <= 100 KiB); identifier tables and source "
                "texts of Cython/Compiler/*.py. Oracle: C decompressor cut from StringTools.c (clang ASan+UBSan, exact-size "
                "heap buffers) returns the original bytes and consumes exactly len(compressed). non-trivial = the compressed "
                "stream contains >= 1 back-reference (by the independent model decoder); distinct by byte string")
    ctx.assumptions = ["non-empty input (the compiler emits no compressed table for an empty string table)",
                       "clang ASan/UBSan report any out-of-buffer access of the exact-size heap blocks",
                       "zstd/zlib/bz2 settings use CPython's own modules and are not part of this property"]


def replay(ctx, case):
    tree.activate_view()
    exe = os.path.join(ctx.work, "c12", "lzss_server")
    if not os.path.exists(exe):
        exe = build_server(os.path.join(ctx.work, "c12"), os.environ["CYVERIF_VIEW"])
    server = Server(exe)
    try:
        data = bytes.fromhex(case["hex"])
        bucket, what, cls, nt = evaluate(data, server)
    finally:
        server.close()
    if bucket is not None:
        return True, "%s: %s" % (bucket, what)
    return False, "round-trips (%d bytes)" % len(data)
