"""C01 - compiled pure-Python code behaves like CPython (DESIGN §4 C01, engine E2)."""
import os

from vlib import diffmod, harness, hyp, reduce, tree
from vlib.gen import pyprog

PID = "C01"
LEVEL = "exploration"
META = {
    "technique": "property-based differential testing: grammar-generated pure-Python functions compiled by Cython vs the same source run by CPython",
    "level_text": "Exploration: type-directed random pure-Python functions (closures, classes, comprehensions, lambdas, global/nonlocal, augmented assignment, unpacking, conditional expressions, walrus, builtins, try/with) are batched into modules, compiled from the working tree, and every generated call is compared (return value type+repr canon, exception type+args, LOG side-effect sequence) with CPython executing the identical source. Thousands of calls per run; no proof.",
    "level_note": "Trusts the hosting CPython 3.12 as reference; compiled code is executed in isolated runner subprocesses; frames, code internals and identity of immutables are never observed (excluded by the property).",
}
K = 24
FEATURE_CLASSES = {"closure", "class", "comprehension", "lambda", "global", "nonlocal", "augassign", "unpacking",
                   "condexpr", "walrus", "builtin"}


def bucket_of(cls, item):
    return "diff:" + cls


def _shard(arg):
    seed, shard, nmods, depth = arg
    tree.activate_view()
    part = harness.Part()
    outdir = os.path.join(tree.workdir(), "c01", "s%d" % shard)
    for m in range(nmods):
        items = pyprog.draw_items(K, seed, ("c01", shard, m), "%d_%d" % (shard, m), max_depth=depth)
        name = "c01m_%d_%d" % (shard, m)
        for sub, res in diffmod.run_batch_isolating(items, name, outdir, header=pyprog.HEADER):
            if res.status == "cyerror":
                # Cython rejected the program: outside C01's domain (C43 judges rejections/crashes); counted.
                part.count("cython_rejected_items", len(sub))
                for msg in diffmod.cy_error_messages(res.detail)[:1] or ["?"]:
                    part.classes["rejected:" + msg[:80]] += 1
                continue
            if res.status == "ccerror":
                part.count("c_compile_failed_items", len(sub))
                if len(sub) == 1:
                    part.violation("build:ccerror", {"header": pyprog.HEADER, "src": sub[0]["src"],
                                                     "exprs": [c["expr"] for c in sub[0]["cases"]]},
                                   "generated C does not compile: %s" % str(res.detail)[-600:])
                continue
            if res.status == "import-diff":
                part.violation("import-diff", {"header": pyprog.HEADER, "src": "\n\n".join(it["src"] for it in sub), "exprs": []},
                               "module import differs: %s" % res.detail)
                continue
            for it, refs, gots in zip(sub, res.ref, res.got):
                feats = set(it["meta"]["features"])
                for c, r, g in zip(it["cases"], refs, gots):
                    nt = len(feats & FEATURE_CLASSES) >= 2 and (r[0] == "exc" or (r[0] == "ok" and r[1] != ["None"]))
                    part.case([it["src"], c["expr"]], nt, ["outcome:" + r[0]] + ["feat:" + f for f in feats],
                              sample={"src": it["src"], "call": c["expr"], "cpython": diffmod.json_short(r), "compiled": diffmod.json_short(g)})
                    cls = diffmod.compare(r, g, "full")
                    if r[0] == "timeout" or g[0] == "timeout":
                        part.count("timeouts")
                    if cls is not None and cls.startswith("excmsg:"):
                        part.classes["msgpair:%s => %s" % (diffmod.msg_template(r[2])[:90], diffmod.msg_template(g[2])[:90])] += 1
                    if cls is not None:
                        part.violation(bucket_of(cls, it), {"header": pyprog.HEADER, "src": it["src"], "exprs": [c["expr"]]},
                                       "%s: CPython %s vs compiled %s" % (c["expr"], diffmod.json_short(r), diffmod.json_short(g)))
    return part


def _reduce_one(job):
    bucket, case, work = job
    cls = bucket[5:]
    tree.activate_view()

    def pred(text):
        items = [{"src": text, "cases": [{"expr": e} for e in case["exprs"]]}]
        res = diffmod.run_batch(items, "red", os.path.join(work, "c01red", cybuild_sha(bucket)), header=case["header"])
        if res.status != "ok":
            return False
        return any(diffmod.compare(r, g, "full") == cls for r, g in zip(res.ref[0], res.got[0]))
    return bucket, reduce.reduce_source(case["src"], pred, budget=30)


def cybuild_sha(text):
    from vlib import cybuild
    return cybuild.sha12(text)


def run(ctx):
    nmods = 1 if ctx.quick else 12
    depth = 3 if ctx.quick else 4
    ctx.pmap(_shard, [(ctx.seed, s, nmods, depth) for s in range(16)])
    ctx.counters["gen_phase_s"] = int(__import__("time").time() - ctx.t0)
    # minimise the first case of every new bucket (statement deletion, bounded recompiles), in parallel
    findings = harness.load_findings()
    firsts = {}
    for bucket, case, what in ctx.violations:
        if bucket.startswith("diff:") and bucket not in firsts and len(firsts) < 8 \
                and harness.match_finding(PID, bucket, case, findings) is None:
            firsts[bucket] = case
    jobs = [(b, c, ctx.work) for b, c in firsts.items()]
    smalls = dict(ctx.pmap(_reduce_one, jobs)) if jobs else {}
    out = []
    done = set()
    for bucket, case, what in ctx.violations:
        if bucket in smalls and bucket not in done:
            done.add(bucket)
            case = dict(case, src=smalls[bucket])
        out.append((bucket, case, what))
    ctx.violations = out
    ctx.rule = ("Hypothesis type-directed pure-Python functions (expression depth<=3/4, 2-6 top-level statements, 1-4 parameters, 3-6 calls "
                "each incl. ~6% wrong-type args), 24 per module; oracle = same source under CPython (value canon, exception type+args, LOG). "
                "non-trivial = function uses >=2 feature classes of {closure,class,comprehension,lambda,global,nonlocal,augassign,unpacking,"
                "condexpr,walrus,builtin} and the call returned non-None or raised; distinct by (source, call)")
    ctx.assumptions = ["CPython 3.12 is the reference semantics", "generated calls always pass the declared number of arguments (C24 covers binding)"]


def replay(ctx, case):
    return diffmod.replay_case(case, os.path.join(ctx.work, "c01replay"), "full")
