"""C19 - comparisons and membership tests match CPython (DESIGN §4 C19, engine E2)."""
import ast
import os

from vlib import diffmod, e2util, harness, tree
from vlib.gen import cmpprog

PID = "C19"
LEVEL = "exploration"
META = {
    "technique": "property-based differential testing: generated comparison chains, membership tests against literal containers and switchable if/elif chains with logging operands, run on value pools incl. NaN, mixed types and objects with custom comparison methods; result, exception and evaluation log compared with CPython",
    "level_text": "Exploration: Hypothesis-seeded generator of (a) comparison chains of length 1-4 over < <= == != >= > is / is not / in / not in whose operands are logging thunks, in value / if / not / and / conditional-expression / while contexts; (b) the same over C-typed (int, long, double) and object parameters mixed; (c) `x in`/`not in` literal tuples, lists and sets with duplicate, mixed-type (1, 1.0, True, '1', b'1'), NaN, non-constant and logging members, Py_UCS4 in str literal, int in bytes literal, C int in int tuple (incl. out-of-range members), membership in typed dict/set/list/tuple/str/bytes; (d) if/elif chains on C int / long / unsigned char / Py_UCS4 / object values with duplicate, overlapping, reversed, out-of-range and non-constant cases (switch candidates). Arguments come from pools with ints, big ints, floats, NaN, -0.0, bools, None, str, bytes, tuples, lists and objects whose rich comparisons / __contains__ / __bool__ log, return non-bools or raise a user exception. Result, exception (type; args for the user exception) and LOG are compared with CPython on the same source. Sampling, no proof.",
    "level_note": "Trusts CPython 3.12 as reference; exception message texts of interpreter-raised exceptions are not compared; typed parameters only receive in-range values of the right type; compiled code runs in isolated runner subprocesses.",
}
K = 40


def case_of(it, exprs):
    return {"header": cmpprog.HEADER, "src": it["src"], "exprs": list(exprs)}


def _compare(r, g):
    cls = diffmod.compare(r, g, "full")
    if cls is not None and cls.startswith("excmsg:"):
        # same exception type and same log (log difference is reported as log-after-exc): message text only
        return None
    return cls


def _cmp_desc(src):
    """description of the comparison nodes of the program (operators, literal container kinds)"""
    try:
        t = ast.parse(src)
    except SyntaxError:
        return "?"
    out = []
    for n in ast.walk(t):
        if isinstance(n, ast.Compare):
            d = e2util.node_desc(n)
            if d not in out:
                out.append(d)
    return "+".join(sorted(out)[:3])


def _form(src):
    ann = src.split("\n")[0]
    typed = "cython." in ann or ": dict" in ann or ": set" in ann or ": list" in ann or ": tuple" in ann or ": str" in ann or ": bytes" in ann
    if "elif" in src or "r = L(" in src:
        return "switch" + (":typed" if typed else ":obj")
    return ("typed" if typed else "obj")


def bucket_of(src, cls, r, g):
    """<form>|<diff class>|<comparison nodes of the program>|<context not><roles at the first log divergence>"""
    kind = cls.split(":")[0]
    if kind.startswith("crash") or kind in ("timeout", "notrun"):
        return cls
    form = _form(src)
    desc = _cmp_desc(src)
    neg = "not:" if "not (" in src else ""
    k = cls if kind in ("exc->ok", "ok->exc", "exctype") else kind
    if e2util.log_of(r) != e2util.log_of(g):
        sig = e2util.logdiff_signature(src, r, g, leaf_names=("L",))
        return "%s|%s|%s%s|%s" % (form, k, neg, desc, "|".join(sig.split("|")[-2:]))
    return "%s|%s|%s%s|-" % (form, k, neg, desc)


def _shard(arg):
    seed, shard, nmods = arg
    tree.activate_view()
    part = harness.Part()
    outdir = os.path.join(tree.workdir(), "c19", "s%d" % shard)

    def on_item(it, refs, gots):
        meta = it["meta"]
        for c, r, g in zip(it["cases"], refs, gots):
            part.case([it["src"], c["expr"]], meta["nt"], ["outcome:" + r[0] + (":" + r[1] if r[0] == "exc" else "")] + ["feat:" + f for f in meta["features"]],
                      sample={"src": it["src"], "call": c["expr"], "cpython": diffmod.json_short(r, 300), "compiled": diffmod.json_short(g, 300)})
            if r[0] == "timeout" or g[0] == "timeout":
                part.count("timeouts")
            cls = _compare(r, g)
            if cls is not None:
                part.violation(bucket_of(it["src"], cls, r, g), case_of(it, [c["expr"]]),
                               "%s: %s: CPython %s vs compiled %s" % (c["expr"], cls, diffmod.json_short(r, 500), diffmod.json_short(g, 500)))

    for m in range(nmods):
        items = cmpprog.draw_items(K, seed, ("c19", shard, m), "%d_%d" % (shard, m))
        e2util.process(part, items, "c19m_%d_%d" % (shard, m), outdir, cmpprog.HEADER, on_item, case_of)
    return part


def run(ctx):
    nmods = 1 if ctx.quick else 12
    ctx.pmap(_shard, [(ctx.seed, s, nmods) for s in range(16)])
    ctx.rule = ("Hypothesis-seeded programs: 40% comparison chains (length 1-4, all operators, logging operands, 6 contexts), 10% typed chains, "
                "30% membership against literal/typed containers, 20% switchable if-chains; 40 functions per module, 8-10 argument tuples each from "
                "value pools; oracle = same source under CPython (result, exception type (+args for the user exception), evaluation LOG). "
                "non-trivial = chain length >= 2, or membership against a literal/typed container, or an if-chain; distinct by (source, call)")
    ctx.assumptions = ["CPython 3.12 is the reference", "exception message texts are not compared",
                       "whether an if-chain actually became a C switch is not checked (all typed if-chains count as candidates)"]


def replay(ctx, case):
    items = [{"src": case["src"], "cases": [{"expr": e} for e in case["exprs"]]}]
    res = diffmod.run_batch(items, "c19r", os.path.join(ctx.work, "c19replay"), header=case["header"])
    if res.status != "ok":
        return True, "build status %s: %s" % (res.status, str(res.detail)[:300])
    for e, r, g in zip(case["exprs"], res.ref[0], res.got[0]):
        c = _compare(r, g)
        if c is not None:
            return True, "%s: %s: CPython %s vs compiled %s" % (e, bucket_of(case["src"], c, r, g), diffmod.json_short(r, 500), diffmod.json_short(g, 500))
    return False, "outcomes agree"
