"""C46 part F - file-level edit/touch histories on real temp trees (DESIGN §4 C46, "Gen (file level)").

For each generated tree (vlib/gen/deptree.py) and history:
  * every build step runs the real `cythonize([...], quiet=False, language_level=3)` with cwd = tree root in a fresh
    state (a forked child of a warmed-up worker that first clears all Cython function caches and the global
    dependency tree; every 16th history uses a brand-new interpreter instead);
  * a logical clock owns all mtimes (os.utime; sources, dependencies and - after each build - the C files);
  * oracle (a): the set of modules cythonize rebuilds (reported by "Compiling ... because" AND observed through the
    C file's mtime) = { modules whose C file is missing or strictly older than the newest file of the module's
    MODEL closure };
  * oracle (b): DependencyTree.all_dependencies(module) = files a real compile of that module opens for reading
    (sys.addaudithook, restricted to the tree) - at the end of the history (thorough tier: also at the start).
"""
import os
import shutil

from vlib import harness, hyp, tree
from vlib.gen import deptree

T0 = 1500000000
SPECIALS = [None, None, None, None, None, None, "rel-bare", "pkg-from"]     # per shard (index % 8)


# --------------------------------------------------------------------------- state

class State:
    def __init__(self, model, root):
        self.tree = model
        self.root = root
        self.clock = T0
        self.mtime = {}        # relpath -> logical mtime (sources and C files)
        self.log = []

    def path(self, rel):
        return os.path.join(self.root, rel)

    def write(self, rel):
        p = self.path(rel)
        os.makedirs(os.path.dirname(p), exist_ok=True)
        with open(p, "w") as f:
            f.write(deptree.render_file(self.tree, rel))
        self.set_mtime(rel, self.clock)

    def set_mtime(self, rel, t):
        os.utime(self.path(rel), (t, t))
        self.mtime[rel] = t

    def tick(self):
        self.clock += 10
        return self.clock

    def cfile(self, module):
        return module.rsplit(".", 1)[0] + ".c"


def materialize(model, root):
    st = State(model, root)
    for rel in sorted(model["files"]):
        st.write(rel)
    return st


def editable_files(model):
    return sorted(f for f, s in model["files"].items() if not s["kind"].startswith("init"))


def apply_op(st, op):
    """Mutates the tree on disk and in the model; returns a short description (for the replay log)."""
    kind, a, b, c = op
    model = st.tree
    files = editable_files(model)
    mods = model["modules"]
    if kind == "touch":
        f = files[a % len(files)]
        st.set_mtime(f, st.tick())
        return "touch %s" % f
    if kind == "edit":
        f = files[a % len(files)]
        model["files"][f]["rev"] += 1
        st.tick()
        st.write(f)
        return "edit %s" % f
    if kind == "touch-tie":
        m = mods[b % len(mods)]
        cf = st.cfile(m)
        if cf not in st.mtime:
            return "touch-tie skipped"
        cl = sorted(deptree.closure(model, m))
        f = cl[a % len(cl)]
        st.set_mtime(f, st.mtime[cf])              # exactly as old as the C file: NOT newer -> no rebuild
        return "touch-tie %s = mtime(%s)" % (f, cf)
    if kind == "delc":
        m = mods[a % len(mods)]
        cf = st.cfile(m)
        if cf in st.mtime:
            os.unlink(st.path(cf))
            del st.mtime[cf]
        return "delete %s" % cf
    if kind == "addcimport":
        holders = sorted(f for f, s in model["files"].items() if s["kind"] in ("pyx", "py", "pxd", "pxi", "modpxd"))
        pxds = sorted(f for f, s in model["files"].items() if s["kind"] == "pxd")
        src = holders[a % len(holders)]
        target = pxds[b % len(pxds)]
        spec = model["files"][src]
        if src == target or any(e[2] == target for e in spec["deps"]):
            return "addcimport skipped"
        if spec["kind"] == "py":
            style = deptree.CIMPORT_STYLES_PY[c % 2]
        elif deptree.in_pkg(target):
            pool = ["rel-dotted", "pkg-dotted"] if deptree.in_pkg(src) else ["pkg-dotted", "pkg-from-name"]
            style = pool[c % len(pool)]
        else:
            style = deptree.CIMPORT_STYLES_TOP[c % len(deptree.CIMPORT_STYLES_TOP)]
        if deptree.reaches(model, target, src):
            style = "pkg-dotted" if deptree.in_pkg(target) else "plain"
        spec["deps"].append(["cimport", style, target])
        before = {f: [list(e) for e in sp["deps"]] for f, sp in model["files"].items()}
        deptree.normalise_cycles(model)
        spec["rev"] += 1
        st.tick()
        for f, sp in model["files"].items():      # files whose spelling had to change are rewritten (= edited) too
            if f != src and sp["deps"] != before[f]:
                sp["rev"] += 1
                st.write(f)
        st.write(src)
        return "add to %s: %s" % (src, deptree.stmt_for(spec["deps"][-1], src).replace("\n", " "))
    if kind == "rmdep":
        holders = sorted(f for f, s in model["files"].items() if s["deps"])
        if not holders:
            return "rmdep skipped"
        src = holders[a % len(holders)]
        spec = model["files"][src]
        e = spec["deps"].pop(b % len(spec["deps"]))
        spec["rev"] += 1
        st.tick()
        st.write(src)
        return "remove from %s: %s" % (src, deptree.stmt_for(e, src).replace("\n", " "))
    if kind == "adddecoy":
        m = mods[a % len(mods)]
        cl = deptree.closure(model, m)
        outside = sorted(f for f, s in model["files"].items() if f not in cl and s["kind"] in ("pxd", "pxi"))
        if not outside:
            return "adddecoy skipped"
        target = outside[b % len(outside)]
        style = deptree.DECOY_STYLES[c % len(deptree.DECOY_STYLES)]
        skind = "include" if target.endswith(".pxi") else ["cimport", "from"][c % 2]
        model["files"][m]["decoys"].append([style, skind, target])
        model["files"][m]["rev"] += 1
        st.tick()
        st.write(m)
        return "decoy in %s: %s %s %s" % (m, style, skind, target)
    raise ValueError(op)


def expected_rebuilds(st):
    out = {}
    for m in st.tree["modules"]:
        cf = st.cfile(m)
        cl = deptree.closure(st.tree, m)
        newest = max(st.mtime[f] for f in cl)
        if cf not in st.mtime:
            out[m] = (True, "C file missing", cl)
        else:
            out[m] = (st.mtime[cf] < newest, "c=%d newest=%d" % (st.mtime[cf] - T0, newest - T0), cl)
    return out


# --------------------------------------------------------------------------- executing

_warm = {}


def _children():
    from vlib import c46_child
    if not _warm:
        # warm the worker up (imports + first compile) in an unrelated directory
        d = os.path.join(tree.workdir(), "c46warm.%d" % os.getpid())
        os.makedirs(d, exist_ok=True)
        with open(os.path.join(d, "w.pyx"), "w") as f:
            f.write("x = 1\n")
        cwd = os.getcwd()
        try:
            c46_child.do_build(d, ["w.pyx"])
        finally:
            os.chdir(cwd)
        _warm["ok"] = True
    return c46_child


def run_child(mode, st, fresh, scratch):
    ch = _children()
    mods = list(st.tree["modules"])
    if fresh:
        return ch.run_subprocess(mode, st.root, mods, os.environ["CYVERIF_VIEW"], scratch)
    return ch.run_forked(ch.do_build if mode == "build" else ch.do_depsets, st.root, mods)


def observe_build(st, res):
    """-> (set of rebuilt modules by C-file mtime, set reported by cythonize's messages, error text or None)"""
    if "crash" in res:
        return None, None, res["crash"]
    reported = set()
    for line in res["out"].splitlines():
        if line.startswith("Compiling ") and " because " in line:
            reported.add(os.path.relpath(os.path.join(st.root, line[len("Compiling "):].split(" because ")[0]), st.root))
    rebuilt = set()
    for m in st.tree["modules"]:
        cf = st.cfile(m)
        p = st.path(cf)
        if not os.path.exists(p):
            return None, None, "no C file for %s after cythonize: %s %s" % (m, res.get("err"), res.get("stderr", "")[-600:])
        if cf not in st.mtime or os.stat(p).st_mtime != st.mtime[cf]:
            rebuilt.add(m)
    if res.get("err"):
        return None, None, "cythonize failed: %s %s" % (res["err"], res.get("stderr", "")[-600:])
    return rebuilt, reported, None


def edge_labels(labels):
    out = set()
    for l in labels:
        if l.startswith("cimport:"):
            out.add(l if deptree.blind_kind(l) else "cimport")
        else:
            out.add(l)
    return "+".join(sorted(out))


def explain_by_blind_edges(model, module, predicate):
    """Smallest set B of the recorded blind edge kinds (see notes/C46.md) for which predicate(closure ignoring B) holds,
    as 'a+b' - or None."""
    for combo in deptree.blind_subsets():
        if predicate(deptree.closure(model, module, blind=combo)):
            return "+".join(combo)
    return None


def decoy_styles_naming(model, module_closure, target):
    styles = set()
    for f in module_closure:
        for style, skind, t in model["files"][f].get("decoys", []):
            if t == target:
                styles.add(style)
    return styles


def run_history(part, model, steps, fresh, scratch, name, record=True, initial_depsets=True):
    """-> list of (bucket, message).  Executes on a new temp tree under scratch."""
    import copy
    model = copy.deepcopy(model)
    root = os.path.join(scratch, name)
    if os.path.isdir(root):
        shutil.rmtree(root)
    os.makedirs(root)
    problems = []
    try:
        st = materialize(model, root)
        nt_indirect = False
        has_decoy = any(s.get("decoys") for s in model["files"].values())
        # (b) at the start, then initial build + steps, then (b) again
        if initial_depsets:
            problems += check_depsets(part, st, fresh, scratch, "initial", record)
        for si, ops in enumerate([[]] + list(steps)):
            for op in ops:
                desc = apply_op(st, op)
                st.log.append(desc)
                if desc.startswith(("touch ", "edit ")):
                    f = desc.split(" ", 1)[1]
                    for m in model["modules"]:
                        d = deptree.depth_of(model, m, f)
                        if d is not None and d >= 2:
                            nt_indirect = True
            has_decoy = has_decoy or any(s.get("decoys") for s in model["files"].values())
            st.tick()
            exp = expected_rebuilds(st)
            res = run_child("build", st, fresh, scratch)
            rebuilt, reported, err = observe_build(st, res)
            st.log.append("build")
            if err is not None:
                part.count("histories_discarded_compile_error")
                part.notes["c46_last_compile_error"] = err[-400:]
                return problems + [("__discard__", err)]
            for m in model["modules"]:
                want, why, cl = exp[m]
                got = m in rebuilt
                if record:
                    part.case(["hist", model, steps, si, m], nt_indirect or has_decoy,
                              ["file:decision=%s" % ("rebuild" if want else "keep"), "file:step=%d" % min(si, 3)],
                              sample={"kind": "history", "step": si, "module": m, "expected_rebuild": want, "why": why,
                                      "log": st.log[-6:]})
                if (m in reported) != got:
                    problems.append(("rebuild:report-mismatch", "step %d: cythonize %s %s but its C file was %s" % (
                        si, "announced compiling" if m in reported else "did not announce", m,
                        "rewritten" if got else "left alone")))
                if want and not got:
                    cf = st.cfile(m)
                    newer = [f for f in cl if cf in st.mtime and st.mtime[f] > st.mtime[cf]]
                    why_blind = None
                    if newer:
                        why_blind = explain_by_blind_edges(model, m, lambda c: not any(f in c for f in newer))
                    labels = set()
                    for f in newer:
                        labels |= cl[f]
                    problems.append(("rebuild:missed:" + ("blind:" + why_blind if why_blind else
                                                          "other:" + (edge_labels(labels) or "c-missing")),
                                     "step %d: %s not rebuilt although %s newer than %s (%s); log: %s" % (
                                         si, m, newer, cf, why, st.log)))
                elif got and not want:
                    cf = st.cfile(m)
                    outside = [f for f in st.mtime if f in model["files"] and f not in cl and st.mtime[f] > st.mtime[cf]]
                    styles = set()
                    for f in outside:
                        styles |= decoy_styles_naming(model, cl, f)
                    problems.append(("rebuild:spurious:" + ("decoy-" + "+".join(sorted(styles)) if styles else "unexplained"),
                                     "step %d: %s rebuilt although nothing in its closure is newer than %s (%s); newer "
                                     "files outside the closure: %s; log: %s" % (si, m, cf, why, outside, st.log)))
            # the C files written in this step get the logical time of the step (ties with later touches possible)
            for m in rebuilt:
                st.set_mtime(st.cfile(m), st.clock)
        problems += check_depsets(part, st, fresh, scratch, "final", record)
        if record:
            cl = ["file:history", "file:mode=%s" % ("fresh-interpreter" if fresh else "forked-child")]
            if nt_indirect:
                cl.append("file:touches-indirect-dependency")
            if has_decoy:
                cl.append("file:has-decoy")
            for s in sorted({e[1] for sp in model["files"].values() for e in sp["deps"]}):
                cl.append("file:style=" + s)
            for s in sorted({d[0] for sp in model["files"].values() for d in sp.get("decoys", [])}):
                cl.append("file:decoy=" + s)
            for c in cl:
                part.classes[c] += 1
        return problems
    finally:
        shutil.rmtree(root, ignore_errors=True)


def check_depsets(part, st, fresh, scratch, when, record):
    res = run_child("depsets", st, fresh, scratch)
    problems = []
    if "crash" in res:
        return [("depset:crash", res["crash"][-600:])]
    model = st.tree
    for m in model["modules"]:
        r = res[m]
        if r["errors"]:
            return [("__discard__", "compile error in %s: %s" % (m, r["stderr"][-400:]))]
        deps, opened = set(r["deps"]), set(r["opened"])
        cl = deptree.closure(model, m)
        if record:
            part.case(["depset", model, when, m], len(cl) >= 4, ["file:depset-compare"],
                      sample={"kind": "depset", "module": m, "deps": sorted(deps), "opened": sorted(opened)})
        if set(cl) != opened:
            problems.append(("selfcheck:model-vs-compiler",
                             "%s (%s): model closure %s, compiler opened %s" % (m, when, sorted(cl), sorted(opened))))
        if deps != opened:
            why_blind = explain_by_blind_edges(model, m, lambda c: set(c) == deps)
            if why_blind:
                problems.append(("depset:blind:" + why_blind,
                                 "%s (%s): the compiler reads %s but all_dependencies = %s" % (
                                     m, when, sorted(opened - deps), sorted(deps))))
                continue
        for f in sorted(opened - deps):
            problems.append(("depset:missing:" + edge_labels(cl.get(f, {"unmodelled"})),
                             "%s (%s): the compiler reads %s but all_dependencies = %s" % (m, when, f, sorted(deps))))
        for f in sorted(deps - opened):
            styles = decoy_styles_naming(model, [x for x in deps if x in model["files"]], f)
            problems.append(("depset:extra:" + ("decoy-" + "+".join(sorted(styles)) if styles else "unread"),
                             "%s (%s): all_dependencies lists %s, which the compiler never opens (opened %s)" % (
                                 m, when, f, sorted(opened))))
    return problems


# --------------------------------------------------------------------------- shards

def _shard(arg):
    seed, shard, count, initial_depsets = arg
    tree.activate_view()
    part = harness.Part()
    special = SPECIALS[shard % len(SPECIALS)]
    scratch = os.path.join(tree.workdir(), "c46f", "s%d" % shard)
    os.makedirs(scratch, exist_ok=True)
    found = {}
    drawn = hyp.draw_many(deptree.histories(special), count + 1, seed, "c46f", shard)[1:]
    for n, (model, steps) in enumerate(drawn):
        fresh = ((shard * count + n) % 16 == 15)       # every 16th history: brand-new interpreter per step
        problems = run_history(part, model, steps, fresh, scratch, "h%d" % n, initial_depsets=initial_depsets)
        if any(b == "__discard__" for b, _ in problems):
            continue
        part.count("histories_run")
        for bucket, msg in problems:
            part.count("file_level_mismatches")
            if bucket not in found:
                found[bucket] = ({"kind": "history", "tree": model, "steps": steps, "fresh": fresh, "bucket": bucket}, msg)
    for bucket, (case, msg) in sorted(found.items()):
        part.violation("file:" + bucket, case, msg)
    shutil.rmtree(scratch, ignore_errors=True)
    return part


def run(ctx):
    count = 1 if ctx.quick else 60
    before = ctx.evaluations
    # quick: 16 histories, dependency sets compared at the end of each; thorough: 960 histories, start and end
    ctx.pmap(_shard, [(ctx.seed, i, count, not ctx.quick) for i in range(16)])
    ctx.extra["file_level_evaluations"] = int(ctx.evaluations - before)
    # one case per bucket (first in shard order)
    seen, keep = set(), []
    for v in ctx.violations:
        if v[0].startswith("file:"):
            if v[0] in seen:
                continue
            seen.add(v[0])
        keep.append(v)
    ctx.violations[:] = keep
    rule = ("file level: Hypothesis trees of 2-3 modules (.pyx/.py, optional same-name .pxd), 2-4 top-level .pxd, an "
            "optional package with two member .pxd, .pxi includes (nested, with cimports inside), cimport cycles among "
            ".pxd; real statements spelled plain / tab / from / parenthesised / continuation line / 'cimport a, b' / "
            "dotted / relative / cython.cimports; decoy statements naming existing files hidden in strings, triple-quoted "
            "and raw strings, f-strings, continued strings, docstrings and comments; histories of an initial build, "
            "a closing tie probe and 2-3 steps of 1-2 ops from {touch, edit, touch-to-tie, delete C file, add cimport, remove dependency, add "
            "decoy} each followed by cythonize in a fresh state. One evaluation = one (step, module) rebuild decision or "
            "one (module) dependency-set comparison. Non-trivial = the history touches/edits a file at distance >= 2 from "
            "a module or the sources contain a decoy (decisions); closure of >= 4 files (dependency sets)")
    assumptions = ["file level: the model closure of a module (generated edges) is the reference for rebuild decisions; it is "
                   "cross-checked against the files a real compile opens (bucket selfcheck:model-vs-compiler)",
                   "file level: 15 of 16 histories run cythonize in a forked child of a warmed-up worker after clearing all "
                   "Cython function caches and the global dependency tree; every 16th uses a new interpreter",
                   "file level: the decoy classes that are recorded findings of C47 (quote or '#' in an f-string format "
                   "spec, F/fr prefixes with quote re-use, string glued to `if`) are not generated here"]
    return rule, assumptions


def replay(ctx, case):
    tree.activate_view()
    part = harness.Part()
    scratch = os.path.join(tree.workdir(), "c46f", "replay")
    os.makedirs(scratch, exist_ok=True)
    problems = run_history(part, case["tree"], case["steps"], case.get("fresh", False), scratch, "r", record=False)
    want = case.get("bucket")
    for b, msg in problems:
        if want is None or b == want:
            return True, "%s: %s" % (b, msg)
    return False, "history replays without %s (problems: %s)" % (want or "any mismatch", [b for b, _ in problems])
