"""C09 - compile-time constants keep their exact Python values (DESIGN §4 C09, engine E2).

Every item is `def f_i(): return <const-expr>` plus (when CPython evaluates the expression without raising) a
module-level `X_i = <const-expr>`; 80 items are generated TOGETHER per module (>= 40 % from families of
equal-but-distinct constants such as 0 / 0.0 / -0.0 / False inside identical container shapes) so that the
compiler's constant pooling (make_dedup_key / get_py_const / get_int_const / get_float_const) sees them side by side.
Oracle: the same module source executed by CPython; values compared by type-tagged canon (floats by hex => sign of
zero, bool/int/float distinguished element-wise, sets sorted, slices by repr); exceptions by type.
"""
import json
import os
import re
import warnings

from vlib import diffmod, harness, hyp, tree, cybuild
from vlib.gen import constexpr

PID = "C09"
LEVEL = "exploration"
META = {
    "technique": "property-based differential testing: modules of generated constant expressions (literal spellings, foldable operator "
                 "trees, tuples/frozensets/slices, equal-but-distinct constants side by side) compiled by Cython vs CPython on the same source",
    "level_text": "Exploration: Hypothesis generates constant expressions as source text - integer literals in all bases with "
                  "underscores and leading zeros up to 2^400, float/complex literal spellings incl. signed zeros, denormals and "
                  "overflowing exponents, operator trees the compiler folds, tuples / nested tuples / frozensets / slices / tuple "
                  "multiplication, and groups that put several ==-equal but distinct constants (0, 0.0, -0.0, False, 0j ...) into the "
                  "same container shape within one module.  Each module is compiled from the working tree and every constant is read "
                  "back through a function and through a module attribute and compared (type-exact, sign-of-zero-exact) with CPython "
                  "running the identical source.  Sampling, not proof.",
    "level_note": "Trusts CPython 3.12 as the reference evaluator of the same expression text; compiled modules run in isolated "
                  "runner subprocesses; object identity of constants is not observed, only values and types.",
}
K = 80

# Open findings whose trigger breaks the BUILD of a whole module: the trigger is excluded from the main generation by
# construction while the finding is open (constexpr.FLAGS) and exercised by separate one-expression probe modules instead,
# so the finding keeps being observed (KNOWN-FINDING) and re-enters the normal generation as soon as it is closed.
BUILD_BREAKERS = {
    "C09-imag-literal-overflow": ("inf_imag_literal", ["1e400j", "(-1e400j, 1)"]),
    "C09-bool-left-of-sequence-mul": ("bool_left_of_sequence_mul", ["True * (1, 2)", "False * (0j if 1 else 1e10,)"]),
    "C09-slice-bound-c-typed-nonint-truncated": ("tuple_slice_bound", ["G[(1.0,):]"]),
}


# one-expression modules for defects that were found by the thorough tier and fixed in the tree (always exercised)
REGRESSION_PROBES = ["(-(10 ** 5000)).bit_length()", "(-(10 ** 5000) + 1, 10 ** 5000)[0].bit_length()"]


def _open_breakers():
    keys = {f.get("key") for f in harness.load_findings() if f.get("property") == PID and f.get("status") == "open"}
    return sorted(k for k in BUILD_BREAKERS if k in keys)


def _set_flags(open_keys):
    for key, (flag, _) in BUILD_BREAKERS.items():
        constexpr.FLAGS[flag] = key not in open_keys


def _canon(v):
    from vlib import runner_main
    return runner_main.canon(v)


def _ref_eval(text):
    """Generator-side evaluation (classification only; the oracle is the CPython runner on the module source)."""
    class _G:
        def __getitem__(self, k):
            return k
    with warnings.catch_warnings():
        warnings.simplefilter("ignore")
        try:
            return ("ok", eval(compile(text, "<c09>", "eval"), {"G": _G(), "__builtins__": {"frozenset": frozenset}}))
        except SyntaxError:
            raise
        except Exception as e:
            return ("exc", type(e).__name__)


def make_items(plan, prefix):
    """plan: [(text, features)] -> (items, infos)"""
    items = []
    vals = []
    for i, (text, feats) in enumerate(plan):
        r = _ref_eval(text)
        uid = "%s_%d" % (prefix, i)
        src = "def f_%s():\n    return %s\n" % (uid, text)
        cases = [{"expr": "M.f_%s()" % uid}]
        if r[0] == "ok":
            src += "X_%s = %s\n" % (uid, text)
            cases.append({"expr": "M.X_%s" % uid})
        items.append({"src": src, "cases": cases, "meta": {"text": text, "features": sorted(feats), "ref": r[0],
                                                           "exc": r[1] if r[0] == "exc" else None}})
        vals.append(r)
    # equal-but-distinct partners inside this module
    canons = [(_canon(r[1]) if r[0] == "ok" else None) for r in vals]
    for i, it in enumerate(items):
        eqd = False
        if vals[i][0] == "ok":
            for j in range(len(items)):
                if j != i and vals[j][0] == "ok" and canons[i] != canons[j]:
                    try:
                        if vals[i][1] == vals[j][1]:
                            eqd = True
                            break
                    except Exception:
                        pass
        it["meta"]["eqdistinct"] = eqd
    return items


def nontrivial(meta):
    f = meta["features"]
    return (any(x.startswith("op:") or x.startswith("container:") for x in f) or "nondecimal" in f or "big" in f
            or meta["eqdistinct"])


def outer_kind(text):
    t = text.strip()
    if t.startswith("frozenset"):
        return "frozenset"
    if t.startswith("G["):
        return "slice"
    if t.startswith("["):
        return "list"
    if t.startswith("{"):
        return "dict-or-set"
    if re.match(r"^\(.*,.*\)( \* \S+)?$", t) or t == "()" or re.match(r"^\S+ \* \(.*\)$", t) or ") + (" in t and t.endswith(",)"):
        return "tuple"
    return "scalar"


def diff_kind(r, g):
    """Root-cause label for two outcomes that differ."""
    if r[0] != g[0]:
        if g[0] == "crash":
            return "crash:%s" % g[1]
        return "%s->%s:%s" % (r[0], g[0], r[1] if r[0] == "exc" else g[1])
    if r[0] == "exc":
        return "exctype:%s->%s" % (r[1], g[1])
    return _walk(r[1], g[1])


def _walk(a, b):
    if a == b:
        return None
    if a[0] != b[0]:
        return "type:%s->%s" % (a[0], b[0])
    tag = a[0]
    if tag == "float":
        fa, fb = a[1], b[1]
        if fa.lstrip("-") == fb.lstrip("-") and "0x0.0p+0" in fa:
            return "float-zero-sign"
        return "float-value"
    if tag == "slice":
        pa = a[1][6:-1].split(", ")
        pb = b[1][6:-1].split(", ")
        for x, y in zip(pa, pb):
            if x != y:
                if x.lstrip("-") == y.lstrip("-") and x.lstrip("-") == "0.0":
                    return "float-zero-sign"
                fx = re.fullmatch(r"-?[0-9.e+-]+|inf|-inf|nan", x) and not re.fullmatch(r"-?\d+", x)
                if fx and re.fullmatch(r"-?\d+", y):
                    return "slice-bound-float->int"
                if x in ("True", "False") and re.fullmatch(r"-?\d+", y):
                    return "slice-bound-bool->int"
                if re.fullmatch(r"-?\d+", y) and not re.fullmatch(r"-?\d+", x):
                    return "slice-bound-nonint->int"
                return "slice-bound-value"
        return "slice-value"
    if tag in ("int", "bool", "str", "bytes", "range"):
        return tag + "-value"
    if tag == "complex":
        return "complex:" + (_walk(a[1], b[1]) or _walk(a[2], b[2]) or "?")
    if tag in ("tuple", "list", "set", "frozenset"):
        if len(a[1]) != len(b[1]):
            return tag + "-length"
        for x, y in zip(a[1], b[1]):
            k = _walk(x, y)
            if k:
                return k
        return tag + "-?"
    if tag == "dict":
        if len(a[1]) != len(b[1]):
            return "dict-length"
        for (ka, va), (kb, vb) in zip(a[1], b[1]):
            k = _walk(ka, kb)
            if k:
                return "dict-key:" + k
            k = _walk(va, vb)
            if k:
                return "dict-value:" + k
        return "dict-?"
    return tag + "-differs"


def _subtrees(c, out):
    """all container sub-constants (tuple / slice / frozenset canon nodes) of a canon tree, as JSON strings"""
    if not isinstance(c, list) or not c:
        return
    if c[0] in ("tuple", "frozenset", "slice"):
        out.add(json.dumps(c))
    if c[0] in ("tuple", "list", "set", "frozenset") and len(c) > 1:
        for x in c[1]:
            _subtrees(x, out)
    elif c[0] == "dict":
        for k, v in c[1]:
            _subtrees(k, out)
            _subtrees(v, out)


def _poolable_at_diff(a, b):
    """(ref node, got node) of the innermost tuple/slice/frozenset that encloses the first difference, or None"""
    best = None
    while isinstance(a, list) and isinstance(b, list) and a != b and a and b and a[0] == b[0]:
        tag = a[0]
        if tag in ("tuple", "frozenset", "slice"):
            best = (a, b)
        if tag in ("tuple", "list", "set", "frozenset") and len(a[1]) == len(b[1]):
            for x, y in zip(a[1], b[1]):
                if x != y:
                    a, b = x, y
                    break
            else:
                break
        elif tag == "dict" and len(a[1]) == len(b[1]):
            nxt = None
            for (ka, va), (kb, vb) in zip(a[1], b[1]):
                if ka != kb:
                    nxt = (ka, kb)
                    break
                if va != vb:
                    nxt = (va, vb)
                    break
            if nxt is None:
                break
            a, b = nxt
        else:
            break
    return best


def pooling_label(ref_canon, got_canon, earlier, own):
    """Is the wrong value explained by constant pooling?  True iff the innermost tuple/slice/frozenset constant that
    holds the difference came out as a constant that an EARLIER item of the module (or another part of the same
    expression) legitimately has - the pooling signature: the first of several ==-equal constants wins."""
    p = _poolable_at_diff(ref_canon, got_canon)
    if p is None:
        return "not-in-a-poolable-constant"
    got = json.dumps(p[1])
    if got in earlier or got in own:
        return "pooled-with-earlier-equal-constant"
    return "no-earlier-equal-constant"


def _module_src(items):
    return diffmod.render(items, constexpr.HEADER)


def _shard(arg):
    seed, shard, nmods, open_keys, probe = arg
    tree.activate_view()
    part = harness.Part()
    outdir = os.path.join(tree.workdir(), "c09", "s%d" % shard)
    _set_flags(open_keys)
    experiments = [0]
    todo = []
    for m in range(nmods):
        plan = hyp.draw_many(constexpr.module_plan(K), 2, seed, "c09", shard, m)[-1]
        todo.append((make_items(plan, "%d_%d" % (shard, m)), "c09m_%d_%d" % (shard, m)))
    if probe is not None:
        key, j, text = probe
        todo.append((make_items([(text, {"probe:" + key, "op:probe"})], "p%d_%d" % (shard, j)), "c09p_%d_%d" % (shard, j)))
    for items, name in todo:
        for sub, res in diffmod.run_batch_isolating(items, name, outdir, header=constexpr.HEADER):
            if res.status == "cyerror":
                for it in sub:
                    msgs = diffmod.cy_error_messages(res.detail)[:1] or [str(res.detail)[:80]]
                    part.count("compile_rejected_items")
                    part.case(["rejected", it["meta"]["text"]], False, ["rejected:" + msgs[0][:70]])
                    crashed = any("Compiler crash" in str(x) for x in (res.detail or []))
                    if it["meta"]["exc"] and not crashed:
                        # CPython raises for this expression, the compiler refuses it statically: there is no run-time
                        # value whose type/value could differ - outside C09's statement (C43 judges rejections)
                        part.count("statically_rejected_where_cpython_raises")
                        continue
                    if len(sub) == 1:
                        part.violation("compile-rejected:%s:cpython-%s" % (re.sub(r"\d+", "N", msgs[0])[:70],
                                                                           it["meta"]["exc"] or "value"),
                                       {"header": constexpr.HEADER, "src": it["src"], "exprs": [c["expr"] for c in it["cases"]],
                                        "text": it["meta"]["text"]},
                                       "Cython rejects the module for constant expression %s (CPython: %s): %s" % (
                                           it["meta"]["text"], it["meta"]["exc"] or "evaluates it", "; ".join(msgs)))
                continue
            if res.status == "ccerror":
                part.count("c_compile_failed_items", len(sub))
                if len(sub) == 1:
                    m = re.search(r"error: (.*)", str(res.detail))
                    msg = re.sub(r"\d+", "N", m.group(1))[:60] if m else "?"
                    msg = msg.replace("\u2018", "'").replace("\u2019", "'").split(" (first use")[0].split("; did you")[0]
                    part.violation("build:ccerror:" + msg, {"header": constexpr.HEADER, "src": sub[0]["src"],
                                                     "exprs": [c["expr"] for c in sub[0]["cases"]], "text": sub[0]["meta"]["text"]},
                                   "generated C does not compile for %s: %s" % (sub[0]["meta"]["text"], str(res.detail)[-500:]))
                continue
            if res.status == "import-diff":
                part.violation("import-diff", {"header": constexpr.HEADER, "src": "\n".join(it["src"] for it in sub), "exprs": []},
                               "module import differs: %s" % res.detail)
                continue
            earlier = set()
            for it, refs, gots in zip(sub, res.ref, res.got):
                meta = it["meta"]
                own = set()
                if refs and refs[0][0] == "ok":
                    _subtrees(refs[0][1], own)
                nt = nontrivial(meta)
                cls = list(meta["features"]) + ["outer:" + outer_kind(meta["text"])]
                if meta["eqdistinct"]:
                    cls.append("module-has-equal-but-distinct-partner")
                for ci, (c, r, g) in enumerate(zip(it["cases"], refs, gots)):
                    where = "function" if ci == 0 else "module-attr"
                    part.case([meta["text"], where], nt, cls + ["outcome:" + (r[0] if r[0] != "exc" else "exc:" + r[1]), "via:" + where],
                              sample={"expr": meta["text"], "via": where, "cpython": diffmod.json_short(r, 120),
                                      "compiled": diffmod.json_short(g, 120)})
                    if r[0] in ("timeout", "notrun") or g[0] in ("timeout", "notrun"):
                        part.count("inconclusive")
                        continue
                    if diffmod.compare(r, g, "exctype") is None:
                        continue
                    kind = diff_kind(r, g)
                    bucket = "diff:%s:%s" % (kind, outer_kind(meta["text"]))
                    if r[0] == "ok" and g[0] == "ok":
                        label = pooling_label(r[1], g[1], earlier, own)
                        if kind.startswith("slice-bound-"):
                            label = "folded-bound"          # specific enough: no attribution experiment
                        elif label != "pooled-with-earlier-equal-constant":
                            # experiment (bounded): does the item still differ when it is alone in a module?
                            if experiments[0] < 8:
                                experiments[0] += 1
                                alone = _differs({"header": constexpr.HEADER, "exprs": [c["expr"]]}, it["src"],
                                                 os.path.join(outdir, "alone"), "a%d" % experiments[0])
                                label = "wrong-when-alone" if alone else "depends-on-other-constants-in-module"
                            else:
                                label = "unattributed"
                        bucket += ":" + label
                    part.violation(bucket, {"header": constexpr.HEADER, "src": _module_src(sub), "exprs": [c["expr"]],
                                            "text": meta["text"], "item_src": it["src"]},
                                   "%s = %s: CPython %s vs compiled %s" % (c["expr"], meta["text"], diffmod.json_short(r),
                                                                           diffmod.json_short(g)))
                earlier |= own
    return part


# ---------------------------------------------------------------------------------------------- reduce

def _differs(case, src, outdir, tag):
    items = [{"src": src, "cases": [{"expr": e} for e in case["exprs"]]}]
    res = diffmod.run_batch(items, tag, outdir, header=case["header"])
    if res.status != "ok":
        return False
    return any(diffmod.compare(r, g, "exctype") is not None for r, g in zip(res.ref[0], res.got[0]))


def _split_items(src, header):
    body = src[len(header):] if src.startswith(header) else src
    blocks = re.split(r"\n(?=def f_)", body)
    return [b if b.endswith("\n") else b + "\n" for b in blocks if b.strip()]


def _reduce_one(job):
    bucket, case, work, idx = job
    tree.activate_view()
    if "item_src" not in case:
        return bucket, case
    outdir = os.path.join(work, "c09red%d" % idx)
    own = case["item_src"]
    budget = [14]

    def bad(blocks):
        if budget[0] <= 0:
            return False
        budget[0] -= 1
        return _differs(case, "\n".join(blocks), outdir, "r%d" % budget[0])

    if bad([own]):
        return bucket, dict(case, src=own)
    others = [b for b in _split_items(case["src"], case["header"]) if b.strip() != own.strip()]
    # ddmin over the other items (the failing item needs a partner constant in the same module)
    n = 2
    while len(others) >= 1 and budget[0] > 0:
        size = max(1, len(others) // n)
        chunks = [others[i:i + size] for i in range(0, len(others), size)]
        reduced = False
        for ch in chunks:
            if bad(ch + [own]):
                others = ch
                n = 2
                reduced = True
                break
        if not reduced:
            if size == 1:
                break
            n = min(len(others), n * 2)
    return bucket, dict(case, src="\n".join(others + [own]))


# ---------------------------------------------------------------------------------------------- run / replay

def run(ctx):
    nmods = 1 if ctx.quick else 20
    open_keys = _open_breakers()
    probes = [(k, j, t) for k in open_keys for j, t in enumerate(BUILD_BREAKERS[k][1])]
    probes += [("regression", j, t) for j, t in enumerate(REGRESSION_PROBES)]
    ctx.pmap(_shard, [(ctx.seed, s, nmods, open_keys, probes[s] if s < len(probes) else None) for s in range(16)])
    ctx.extra["build_breaking_findings_excluded_from_generation_and_probed_separately"] = open_keys
    findings = harness.load_findings()
    firsts = {}
    for bucket, case, what in ctx.violations:
        if bucket.startswith("diff:") and bucket not in firsts and len(firsts) < 8 \
                and harness.match_finding(PID, bucket, case, findings) is None:
            firsts[bucket] = case
    if firsts:
        small = dict(ctx.pmap(_reduce_one, [(b, c, ctx.work, i) for i, (b, c) in enumerate(firsts.items())]))
        done = set()
        out = []
        for bucket, case, what in ctx.violations:
            if bucket in small and bucket not in done:
                done.add(bucket)
                case = small[bucket]
            out.append((bucket, {k: v for k, v in case.items() if k != "item_src"}, what))
        ctx.violations = out
    ctx.rule = ("Hypothesis constant-expression TEXT, %d per module (16 modules quick / 320 thorough): int literals (dec/hex/oct/bin, "
                "underscores, leading zeros, up to 2^401), float and complex literal spellings (signed zeros, denormals, 1e400, "
                "1e-400, leading-zero and underscore forms), operator trees of depth <= 3 over + - * / // %% ** << >> & | ^ ~ not "
                "and/or comparisons condexpr index, tuples / nested / tuple*int / tuple+tuple / frozenset(...) / G[a:b:c] slices / "
                "list / set / dict displays; >= 40 %% of the items come in groups that apply ONE container shape to several members of "
                "a family of ==-equal constants (zero, one, two, minus-one, 2**64, one half). Each constant is read through "
                "`def f(): return <expr>` and through a module attribute. Oracle = same source under CPython (canon: type-tagged, "
                "floats by hex; exceptions by type). non-trivial = expression contains an operator, a container, a non-decimal or "
                ">64-bit literal, or the module holds another constant that is == but differs in type/sign; distinct by "
                "(expression text, access path)" % K)
    ctx.assumptions = ["CPython 3.12 evaluating the same source text is the reference",
                       "not generated (other properties' subjects, findings recorded there): float operands of // and % (C06), "
                       "0 ** negative and float-overflowing ** (C07)",
                       "an expression on which CPython raises and which the compiler refuses statically is counted, not judged "
                       "(no run-time value exists; C43 judges rejections)",
                       "identity (is) of constants is not compared - only type and value",
                       "exception messages are not compared (types only)"]


def replay(ctx, case):
    tree.activate_view()
    outdir = os.path.join(ctx.work, "c09replay")
    items = [{"src": case["src"], "cases": [{"expr": e} for e in case["exprs"]]}]
    res = diffmod.run_batch(items, "c09rp", outdir, header=case.get("header", constexpr.HEADER))
    if res.status == "cyerror":
        return True, "Cython rejects the module: %s" % "; ".join(diffmod.cy_error_messages(res.detail)[:2] or [str(res.detail)[:200]])
    if res.status != "ok":
        return True, "build status %s: %s" % (res.status, str(res.detail)[:300])
    for e, r, g in zip(case["exprs"], res.ref[0], res.got[0]):
        if diffmod.compare(r, g, "exctype") is not None:
            return True, "%s: %s: CPython %s vs compiled %s" % (e, diff_kind(r, g), diffmod.json_short(r), diffmod.json_short(g))
    return False, "outcomes agree"
