"""C13 - builtin call and method optimisations preserve semantics (DESIGN §4 C13, engines E2/E3)."""
import os
import re

from hypothesis import strategies as st

from vlib import harness, hyp, kdiff, tree
from vlib.gen import builtincat

PID = "C13"
LEVEL = "exploration"
META = {
    "technique": "call-site catalogue (builtin functions and builtin-type methods that Optimize.py/Builtin.py specialise) instantiated "
                 "per receiver/argument typing, compiled once, driven with pooled argument tuples (full product or seeded sample); "
                 "differential oracle = same source under CPython, result + mutated receiver + exception compared",
    "level_text": "Exploration: ~350 call shapes (len abs min max sum any all sorted ord chr isinstance type int float bool str list "
                  "tuple set frozenset dict memoryview slice getattr/iter/next/format..., list/dict/set/bytearray methods, str split/"
                  "join/startswith/endswith/find/count/replace/encode/isX/case/strip, bytes decode (constant and variable encodings, "
                  "sliced receivers)/startswith/endswith/join, generator-expression forms, inferred and literal receivers) are "
                  "instantiated with untyped, exact-builtin-annotated and C-typed parameters (~600 kernels) and compiled from the "
                  "working tree; each kernel is called with the full product of its argument pools or a seeded sample of it (empty/"
                  "non-empty containers, str kinds 1/2/4, subclasses, None, wrong types, unhashable keys, negative/huge indices "
                  "incl. +-sys.maxsize, tuples of prefixes, iterables raising mid-way). Return value, the arguments after the call "
                  "(mutation) and exception type are compared with CPython executing the identical source; exception message text is "
                  "compared too and reported in a separate class. Sampling, no proof.",
    "level_note": "Trusts CPython 3.12 as reference (same source, same runner process, fresh mutable arguments per side). Parameters "
                  "annotated with an exact builtin type only receive exact instances (the annotation's entry check is Cython's "
                  "documented typing rule); C-typed parameters only receive in-range values. Whether a call site was really replaced "
                  "is decided per kernel from the generated C (no lookup of the builtin / method name left in the function body).",
}

NSAMPLE_QUICK = 400
NSAMPLE_THOROUGH = 2500


def kernel_source(k, name):
    args = ", ".join(("%s: %s" % (n, a)) if a else n for n, _, a in k["params"])
    return "def %s(%s):\n%s\n" % (name, args, k["body"])


def build_table(seed, quick):
    """-> (kernels, values, inputs).  values: exprs/fresh dicts."""
    ks = builtincat.instantiate()
    values = []
    vindex = {}

    def v(expr, fresh):
        key = (expr, fresh)
        if key not in vindex:
            vindex[key] = len(values)
            values.append({"fresh": expr} if fresh else expr)
        return vindex[key]
    nsample = NSAMPLE_QUICK if quick else NSAMPLE_THOROUGH
    rnd = hyp.draw_many(st.integers(0, 2 ** 62), nsample + 1, seed, "c13-sample")[1:]
    inputs = {}
    out = []
    excluded = [0]
    for idx, k in enumerate(ks):
        name = "k%d" % idx
        pools = []
        for n, pool, ann in k["params"]:
            pools.append([v(e, "f" in f) for e, f in builtincat.pool_for(pool, ann)])
        total = 1
        for p in pools:
            total *= len(p)
        key = "in:" + "|".join("%s/%s" % (pool, ann) for _, pool, ann in k["params"])
        if total > nsample:
            key += ":%d" % (idx % 7)           # a few different samples per signature
        if key not in inputs:
            if total <= nsample:
                picks = range(total)
            else:
                picks = sorted(set((r + 7919 * (idx % 7)) % total for r in rnd))
            tl = []
            for p in picks:
                tup = []
                for pl in pools:
                    tup.append(pl[p % len(pl)])
                    p //= len(pl)
                tl.append(tup)
            inputs[key] = tl
        # open finding C13-bytes-tailmatch-start-overflow: a bytes/bytearray-typed receiver with start == sys.maxsize and a
        # non-empty prefix reads far outside the buffer (SIGSEGV): excluded by construction, one representative kept
        if k["target"] in ("startswith", "endswith") and k["group"] in ("bytes", "bytearray") \
                and any(a in ("bytes", "bytearray") for _, _, a in k["params"]):
            names = [n for n, _, _ in k["params"]]
            if "i" in names:
                ipos = names.index("i")
                kept = [t for t in inputs[key] if values[t[ipos]] != "sys.maxsize"]
                excluded[0] += len(inputs[key]) - len(kept)
                key2 = key + ":nocrash"
                if k["body"].strip() == "return b.startswith(x, i)" and k["params"][0][2] == "bytes":
                    kept = kept + [[v("b'abc'", False), v("b'a'", False), v("sys.maxsize", False)]]
                    excluded[0] -= 1
                    key2 += "+rep"
                inputs[key2] = kept
                key = key2
        has_fresh = any("f" in f for n, pool, ann in k["params"] for e, f in builtincat.pool_for(pool, ann))
        out.append(dict(k, name=name, src=kernel_source(k, name), inputs=key, post=has_fresh))
    build_table.excluded = excluded[0]
    return out, values, inputs


def optimised_flags(c_path, kernels):
    """Per kernel: was the call site replaced?  True if the kernel's implementation function in the generated C contains no
    lookup of the builtin (`__pyx_builtin_<name>`) and no method-name string (`__pyx_n_s_<name>` / `__pyx_n_u_<name>`)."""
    try:
        text = open(c_path, encoding="utf-8", errors="replace").read()
    except OSError:
        return {}
    flags = {}
    for k in kernels:
        m = re.search(r"\nstatic PyObject \*__pyx_pf_\w+?_\d*%s\([^;{]*\{" % re.escape(k["name"]), text)
        if not m:
            continue
        end = text.find("\n}\n", m.end())
        body = text[m.end():end if end > 0 else m.end() + 20000]
        t = k["target"]
        pat = r"__pyx_builtin_%s\b|__pyx_n_[su]_%s\b" % (re.escape(t), re.escape(t))
        flags[k["name"]] = re.search(pat, body) is None
    return flags


def mismatch_kind(want, got, post):
    wr, gr = want.split(" | ")[0], got.split(" | ")[0]
    we, ge = wr.startswith("E:"), gr.startswith("E:")
    if we and ge:
        wt, gt = wr.split(":")[1], gr.split(":")[1]
        if wt != gt:
            return "exctype:%s->%s" % (wt, gt)
        if post and want.split(" | ")[-1] != got.split(" | ")[-1]:
            return "state-after-exception:%s" % wt
        return "excmsg:%s" % wt
    if we:
        return "exc->ok:%s" % wr.split(":")[1]
    if ge:
        return "ok->exc:%s" % gr.split(":")[1]
    if wr != gr:
        if wr.split(":")[0] != gr.split(":")[0]:
            return "type:%s->%s" % (wr.split(":")[0].split("(")[0], gr.split(":")[0].split("(")[0])
        return "value"
    return "mutation"


def arg_class(e):
    e = e if isinstance(e, str) else e["fresh"]
    if e == "None":
        return "None"
    if e.startswith("S."):
        return e.split("(")[0]
    if "maxsize" in e or "2**6" in e or "2**7" in e:
        return "huge"
    return ""


def _shard(arg):
    seed, shard, nshards, quick = arg
    tree.activate_view()
    part = harness.Part()
    allk, values, inputs = build_table(seed, quick)
    kernels = [k for i, k in enumerate(allk) if i % nshards == shard]
    used = sorted(set(k["inputs"] for k in kernels))
    spec = {"values": values, "inputs": {d: inputs[d] for d in used}, "prelude": builtincat.PRELUDE, "exc_args": True, "split_msg": True,
            "kernels": [{"name": k["name"], "inputs": k["inputs"], "post": k["post"]} for k in kernels], "max_mismatch": 40}
    src = "import cython\nimport sys\n\n" + "".join(k["src"] + "\n" for k in kernels)
    name = "c13_%d" % shard
    outdir = os.path.join(tree.workdir(), "c13")
    # risky call shapes (huge start/end) may crash: every kernel is its own crash-isolation unit only when a crash happens
    res = kdiff.run_table(src, name, outdir, spec, max_crashes=12, timeout=1200)
    if res.status != "ok":
        part.violation("build:%s" % res.status, {"kind": "build", "src": src},
                       "catalogue module does not build/import/run: %s" % str(res.detail)[:800])
        return part
    flags = optimised_flags(os.path.join(outdir, name, name + ".c"), kernels)
    for k, r in zip(kernels, res.kernels):
        tuples = inputs[k["inputs"]]
        n = r["n"]
        if r.get("incomplete"):
            part.count("incomplete_kernel_runs")
        opt = flags.get(k["name"])
        typed = k["typed"]
        replaced = bool(opt) if re.match(r"^[a-z_]+$", k["target"]) and opt is not None else typed
        part.evaluations += n
        part.classes["group:%s" % k["group"]] += n
        part.classes["call-site:%s" % ("replaced" if replaced else "not_optimised-control")] += n
        part.classes["typing:%s" % ("annotated" if typed else "untyped")] += n
        part.classes["ref-outcome:exception"] += r["summ"].count("E")
        if replaced:
            for tup in tuples[:n]:
                part.nt.add(harness.khash([k["src"], [values[v] for v in tup]]))
        if len(part.samples) < 5 and n:
            ti = (len(part.samples) * 977 + shard * 131) % n
            part.samples.append({"kernel": k["src"], "args": [values[v] for v in tuples[ti]], "agrees": True, "replaced": replaced,
                                 "cpython_outcome": "exception" if r["summ"][ti:ti + 1] == "E" else "value"})
        sig = "%s:%s:%s" % (k["group"], k["target"], "+".join(a.replace("cython.", "") or "obj" for _, _, a in k["params"]))

        def args_of(ti):
            return [values[v] for v in tuples[ti]]
        for ti, what in r["crashes"]:
            part.violation("%s:crash:%s" % (sig, "/".join(arg_class(a) for a in args_of(ti))),
                           {"kind": "call", "src": "import cython\nimport sys\n" + k["src"], "kernel": k["name"], "args": args_of(ti),
                            "post": k["post"]},
                           "%s called with %s crashed: %s" % (k["src"].strip().replace("\n", " ; "), args_of(ti), what))
        seen = set()
        for ti, want, got in r["mism"]:
            kind = mismatch_kind(want, got, k["post"])
            bucket = "%s:%s:%s" % (sig, kind, "/".join(arg_class(a) for a in args_of(ti)))
            if bucket in seen:
                continue
            seen.add(bucket)
            part.violation(bucket, {"kind": "call", "src": "import cython\nimport sys\n" + k["src"], "kernel": k["name"],
                                    "args": args_of(ti), "post": k["post"]},
                           "%s called with %s: CPython %s, compiled %s" % (k["src"].strip().replace("\n", " ; "), args_of(ti),
                                                                           want[:200], got[:200]))
        seen_msg = set()
        for ti, want, got in r.get("msgmism", []):
            wt = want.split(":")[1]
            msg_only = bool(_MSGARGS.match(want.split(" | ")[0]) and _MSGARGS.match(got.split(" | ")[0]))
            kindm = "excmsg" if msg_only else "excargs"
            if kindm in seen_msg:
                continue
            seen_msg.add(kindm)
            if msg_only:
                part.classes["msgdiff:%s:%s  %s => %s" % (k["group"], k["target"], _tmpl(want), _tmpl(got))] += r.get("nmsg", 1)
            part.violation("%s:%s:%s" % (sig, kindm, wt),
                           {"kind": "call", "src": "import cython\nimport sys\n" + k["src"], "kernel": k["name"], "args": args_of(ti),
                            "post": k["post"], "msg_only": msg_only},
                           "%s called with %s: CPython %s, compiled %s" % (k["src"].strip().replace("\n", " ; "), args_of(ti),
                                                                           want[:200], got[:200]))
        part.count("mismatching_calls", r["nmis"])
        part.count("message_only_differences", r.get("nmsg", 0))
    return part


_MSGARGS = re.compile(r"^E:\w+:tuple\(s:(\'[^\']*\'|\"[^\"]*\")\)$")


def _tmpl(tok):
    s = tok.split(" | ")[0]
    s = re.sub(r"\d+", "N", s)
    return s[:90]


def run(ctx):
    allk, values, inputs = build_table(ctx.seed, ctx.quick)
    nshards = 10
    from vlib import cybuild
    d = os.path.join(ctx.work, "c13", "warm")
    os.makedirs(d, exist_ok=True)
    with open(os.path.join(d, "c13warm.py"), "w") as f:
        f.write("import cython\nimport sys\n\n" + "".join(k["src"] + "\n" for k in allk[::12]))
    try:
        cybuild.cython_compile(os.path.join(d, "c13warm.py"))
    except cybuild.CythonError:
        pass
    ctx.pmap(_shard, [(ctx.seed, s, nshards, ctx.quick) for s in range(nshards)])
    ctx.extra["kernels"] = len(allk)
    ctx.counters["inputs_excluded_known_finding"] = build_table.excluded
    ctx.extra["shapes"] = len(builtincat.SHAPES)
    ctx.rule = ("call-site catalogue of %d shapes x parameter typings = %d kernels (vlib/gen/builtincat.py); per kernel the full product "
                "of its argument pools if <= %d tuples, else a seeded sample of %d tuples of the product (pools: empty/non-empty "
                "containers, str kinds 1/2/4, subclasses, None, wrong types, unhashable, +-sys.maxsize / 2**64 indices, tuples of "
                "prefixes, raising iterables, encodings/error handlers); oracle = same source under CPython on fresh arguments: "
                "result, arguments after the call, exception type (+ message text as a separate class). non-trivial = the call site "
                "was really replaced: the kernel's C function contains no lookup of the builtin/method name (shapes without a single "
                "target name: some parameter is annotated); distinct by (kernel source, argument expressions)"
                % (len(builtincat.SHAPES), len(allk), NSAMPLE_QUICK if ctx.quick else NSAMPLE_THOROUGH,
                   NSAMPLE_QUICK if ctx.quick else NSAMPLE_THOROUGH))
    ctx.assumptions = ["CPython 3.12 is the reference semantics",
                       "parameters annotated with an exact builtin type receive only exact instances, C-typed parameters only in-range values"]


def replay(ctx, case):
    out = os.path.join(ctx.work, "c13replay", harness.khash(case))
    if case.get("kind") == "build":
        from vlib import cybuild
        try:
            cybuild.build(case["src"], "c13replay", out)
        except (cybuild.CythonError, cybuild.CCError) as e:
            return True, "build fails: %s" % str(e)[:300]
        return False, "builds"
    spec = {"values": case["args"], "inputs": {"one": [list(range(len(case["args"])))]}, "prelude": builtincat.PRELUDE,
            "exc_args": True, "split_msg": True,
            "kernels": [{"name": case["kernel"], "inputs": "one", "post": case.get("post", False)}]}
    res = kdiff.run_table(case["src"], "c13r", out, spec, max_crashes=1)
    if res.status != "ok":
        return True, "build/run status %s: %s" % (res.status, str(res.detail)[:300])
    k = res.kernels[0]
    if k["crashes"]:
        return True, "%s%s crashed: %s" % (case["kernel"], case["args"], k["crashes"][0][1])
    if k["mism"]:
        return True, "%s%s: CPython %s, compiled %s" % (case["kernel"], case["args"], k["mism"][0][1][:200], k["mism"][0][2][:200])
    if k.get("msgmism"):
        return True, "%s%s: CPython %s, compiled %s (message only)" % (case["kernel"], case["args"], k["msgmism"][0][1][:200],
                                                                       k["msgmism"][0][2][:200])
    return False, "outcomes agree"
