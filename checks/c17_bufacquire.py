"""C17 - buffer acquisition accepts exactly the matching buffers (DESIGN §4 C17, engine E3).

Two .pyx modules (numeric dtypes / struct dtypes) contain a `cdef class Exporter` whose __getbuffer__ serves
caller-chosen format / itemsize / ndim / shape / strides / readonly over a bytearray, plus acquisition kernels for
every declared dtype: typed memoryview `T[:]`, `const T[:]`, legacy `object[T, ndim=1]`, and contiguity / ndim
variants.  Format strings are built by construction from the declared C layout (vlib/gen/bufdecl.py): equivalent
spellings must be accepted and read the same values as struct.unpack on the raw bytes, single-point mutations must
raise ValueError / TypeError, debatable spellings are executed but not judged.
"""
import ast
import json
import os
import random
import re
import struct

from vlib import cybuild, harness, hyp, runner, tree
from vlib import bufdrive
from vlib.gen import bufdecl

PID = "C17"
LEVEL = "exploration"
META = {
    "technique": "accept-set / reject-set by construction: PEP 3118 format strings generated from the declared C layout (equivalent spellings vs single-point mutations) served by an in-module exporter to typed-memoryview and legacy-buffer acquisition kernels; values checked against struct.unpack",
    "level_text": "Exploration over a constructed finite family: 26 declared element types (all C integer types, float / double / long double, float and double complex, 8 struct types: aligned, packed, nested, packed-nested, with array members, with a complex member, with trailing padding) x acquisition forms T[:], object[T, ndim=1] and (for 7 types) const T[:] x every generated spelling (native / @ / ^ / = / < prefixes, explicit and counted padding, T{} wrapping, field names, repeat counts, whitespace, (d1,d2) arrays, Zf/Zd vs two reals, standard-size aliases) and every single-point mutation (one primitive changed in kind or size, field added / dropped, repeat count 0 / +1, pad byte added / dropped / shortened, array extent changed, packed format for an aligned struct and vice versa, big-endian prefixes, garbled strings, wrong itemsize, wrong ndim, read-only exporter, non-contiguous strides for ::1 / mode='c' / mode='fortran'). The accept spellings are cross-checked against numpy's independent PEP 3118 parser at generation time. Not a proof: the format grammar is sampled by construction, not enumerated.",
    "level_note": "Trusts the struct module (values) and the x86-64 SysV layout model of vlib/gen/bufdecl.py, which is verified against sizeof/offsets compiled into every test module before any verdict. The exporter lives in the module under test (compiled by the same compiler). Debatable spellings ('l' vs 'q', '>' on single bytes, arrays as repeat counts, ...) are executed but never judged.",
}

MODEL = [os.path.abspath(bufdecl.__file__), os.path.abspath(bufdrive.__file__)]
NT_RE = re.compile(r"[@=<>!^x0-9]|T\{")
SLACK = 64


# ------------------------------------------------------------------------------------------------ raw bytes
def _float_bytes(rng, code):
    vals = [0.0, -0.0, 1.5, -2.25, float("inf"), float("-inf"), float("nan"), 1e-310, 3.0e38, rng.uniform(-1e6, 1e6), rng.random()]
    v = rng.choice(vals)
    if code == "f":
        try:
            return struct.pack("=f", v)
        except OverflowError:
            return struct.pack("=f", 1.0)
    if code == "d":
        return struct.pack("=d", v)
    import numpy as np
    return np.array([v], dtype=np.longdouble).tobytes()[:16]


def fill_item(rng, t, buf, base):
    for off, code, _ in bufdecl.flatten(t, base):
        if code in ("f", "d", "g"):
            b = _float_bytes(rng, code)
        elif code in ("Zf", "Zd"):
            b = _float_bytes(rng, code[1]) + _float_bytes(rng, code[1])
        else:
            b = bytes(rng.getrandbits(8) for _ in range(bufdecl.leaf_size(code)))
        buf[off:off + len(b)] = b


def make_buffer(rng, t, itemsize, shape, layout):
    """-> (raw hex, strides, offset) for items of size t.size laid out as `layout` with the given logical shape."""
    isz = t.size
    nd = len(shape)
    ext = [max(n, 1) for n in shape]
    if layout == "C":
        st = [isz] * nd
        for i in range(nd - 2, -1, -1):
            st[i] = st[i + 1] * ext[i + 1]
    elif layout == "F":
        st = [isz] * nd
        for i in range(1, nd):
            st[i] = st[i - 1] * ext[i - 1]
    elif layout == "gap":            # C order with a gap after every innermost item
        st = [isz * 2] * nd
        for i in range(nd - 2, -1, -1):
            st[i] = st[i + 1] * ext[i + 1]
    elif layout == "rowgap":         # C order, rows padded by one item
        st = [isz] * nd
        for i in range(nd - 2, -1, -1):
            st[i] = st[i + 1] * (ext[i + 1] + (1 if i == nd - 2 else 0))
    elif layout == "neg":            # C order walked backwards in the first dimension
        st = [isz] * nd
        for i in range(nd - 2, -1, -1):
            st[i] = st[i + 1] * ext[i + 1]
        st[0] = -st[0]
    else:
        raise ValueError(layout)
    lo = sum(min(0, s * (n - 1)) for s, n in zip(st, ext))
    hi = sum(max(0, s * (n - 1)) for s, n in zip(st, ext)) + max(isz, itemsize)
    offset = -lo
    size = hi - lo + SLACK
    buf = bytearray(rng.getrandbits(8) for _ in range(size))

    def rec(dim, off):
        if dim == nd:
            fill_item(rng, t, buf, off)
            return
        for i in range(shape[dim]):
            rec(dim + 1, off + i * st[dim])
    rec(0, offset)
    return bytes(buf).hex(), st, offset


def is_contig(shape, strides, isz, fortran):
    if any(n == 0 for n in shape):
        return True
    expect = isz
    order = range(len(shape)) if fortran else range(len(shape) - 1, -1, -1)
    for i in order:
        if shape[i] > 1 and strides[i] != expect:
            return False
        expect *= shape[i]
    return True


# ------------------------------------------------------------------------------------------------ cases
def case_of(rng, t, cls, expect, fmt, shape=None, layout=None, itemsize=None, **kw):
    shape = shape if shape is not None else [rng.choice((0, 1, 2, 3, 3, 4))]
    layout = layout or rng.choice(("C", "C", "gap", "neg"))
    itemsize = t.size if itemsize is None else itemsize
    raw, st, off = make_buffer(rng, t, itemsize, shape, layout)
    nt = expect == "reject" or (fmt is not None and NT_RE.search(fmt) is not None)
    c = {"cls": cls, "expect": expect, "fmt": fmt, "itemsize": itemsize, "shape": list(shape), "strides": st, "offset": off,
         "raw": raw, "nt": bool(nt), "layout": layout}
    c.update(kw)
    return c


def cases_1d(rng, i, t, kind, quick):
    """Cases for the 1-dim kernels (mv / cmv / lb) of declared type i."""
    out = []
    either_extra = []
    for cl, f in bufdecl.accept_spellings(t):
        out.append(case_of(rng, t, cl.split("/")[0] + ("/" + cl.split("/")[1] if "/" in cl else ""), "accept", f))
    for cl, f in bufdecl.reject_spellings(t, either_extra):
        out.append(case_of(rng, t, cl, "reject", f))
    for cl, f in bufdecl.either_spellings(t) + either_extra:
        out.append(case_of(rng, t, cl, "either", f))
    good = bufdecl.spell(t, "" if bufdecl.expressible_native(t) else "^")
    out.append(case_of(rng, t, "numpy-exported-format", "accept", numpy_format(t)))
    # itemsize
    for label, isz in (("itemsize+1", t.size + 1), ("itemsize-1", t.size - 1), ("itemsize*2", t.size * 2), ("itemsize/2", t.size // 2)):
        if isz > 0 and isz != t.size:
            out.append(case_of(rng, t, label, "reject", good, itemsize=isz, layout="gap", shape=[rng.choice((1, 2, 3))]))
    # ndim
    out.append(case_of(rng, t, "ndim=2-for-1", "reject", good, shape=[2, 2], layout="C"))
    out.append(case_of(rng, t, "ndim=3-for-1", "reject", good, shape=[1, 1, 2], layout="C"))
    # read-only exporters
    if kind == "mv":
        out.append(case_of(rng, t, "readonly-for-writable", "reject", good, readonly=True, exporter_may_refuse=True))
    else:
        out.append(case_of(rng, t, "readonly-for-readonly-use", "accept", good, readonly=True))
    # layouts of the item sequence
    for lay in ("C", "gap", "neg"):
        for n in (0, 1, 4):
            out.append(case_of(rng, t, "layout:%s/n=%d" % (lay, n), "accept", good, shape=[n], layout=lay))
    return out


def cases_nd(rng, i, t, nd, contig, kind, quick):
    out = []
    good = bufdecl.spell(t, "" if bufdecl.expressible_native(t) else "^")
    shapes = {1: [[1], [3], [4]], 2: [[2, 3], [3, 1], [1, 3], [1, 1], [2, 2]], 3: [[2, 2, 3], [1, 2, 2], [2, 1, 2], [2, 2, 1]]}[nd]
    for shape in shapes:
        for lay in ("C", "F", "gap", "rowgap", "neg"):
            if lay == "rowgap" and nd == 1:
                continue
            for strict in (True, False):
                c = case_of(rng, t, "nd", "accept", good, shape=shape, layout=lay, strict=strict)
                ok = True if contig is None else is_contig(shape, c["strides"], t.size, contig == "F")
                c["cls"] = "contig-req=%s/layout=%s%s" % (contig, lay, "" if strict else "/lenient-exporter")
                if ok:
                    c["expect"] = "accept"
                elif strict:
                    c["expect"] = "reject"
                    c["exporter_may_refuse"] = True
                    c["nt"] = True
                elif kind == "mv":
                    c["expect"] = "reject"          # the memoryview code verifies contiguity itself
                    c["nt"] = True
                else:
                    c["expect"] = "either"          # legacy buffers rely on the exporter honouring the request
                out.append(c)
    # wrong ndim
    sat = "F" if contig == "F" else "C"          # a layout that satisfies the kernel's contiguity request
    for wrong in ({1: [2, 2], 2: [4], 3: [2, 2]}[nd], {1: [1, 1, 2], 2: [2, 2, 2], 3: [2, 2, 2, 1]}[nd]):
        out.append(case_of(rng, t, "ndim=%d-for-%d" % (len(wrong), nd), "reject", good, shape=wrong, layout=sat))
    # a mutated / an equivalent format through the n-dim path
    acc = bufdecl.accept_spellings(t)
    rej = bufdecl.reject_spellings(t)
    for cl, f in (acc[:: max(1, len(acc) // 4)])[:4]:
        out.append(case_of(rng, t, "nd+" + cl, "accept", f, shape=shapes[0], layout=sat))
    for cl, f in (rej[:: max(1, len(rej) // 4)])[:4]:
        out.append(case_of(rng, t, "nd+" + cl, "reject", f, shape=shapes[0], layout=sat))
    return out


def numpy_format(t):
    """PEP 3118 format numpy itself exports for a structured dtype with exactly the declared C layout
    (second, independent source of matching format strings)."""
    import numpy as np

    def dt(t):
        if t.kind == "prim":
            return np.dtype({"c": "i1", "b": "i1", "B": "u1", "h": "i2", "H": "u2", "i": "i4", "I": "u4", "l": "i8", "L": "u8",
                             "q": "i8", "Q": "u8", "f": "f4", "d": "f8", "g": "longdouble", "Zf": "c8", "Zd": "c16"}[t.code])
        if t.kind == "array":
            return np.dtype((dt(t.elem), tuple(t.dims)))
        return np.dtype({"names": [f for f, _ in t.fields], "formats": [dt(ft) for _, ft in t.fields],
                         "offsets": list(t.offsets), "itemsize": t.size})
    d = dt(t)
    assert d.itemsize == t.size
    return memoryview(np.zeros(1, d)).format


def risky_cases(rng, i, t):
    """Inputs that can plausibly kill or hang the process: one runner case each."""
    out = []
    for cl, f in bufdecl.risky_reject_spellings(t):
        out.append(case_of(rng, t, cl, "reject", f, shape=[2], layout="C"))
    if t.kind == "struct" and t.name in ("S1", "S3"):
        good = bufdecl.spell(t, "", wrap=True, names=True)
        out.append(case_of(rng, t, "garbled:unterminated-name", "reject", good[:good.rindex(":")] if good.rstrip("}").endswith(":") else good + ":zz"))
    return out


# ------------------------------------------------------------------------------------------------ build / drive
def _build(arg):
    name, work = arg
    tree.activate_view()
    src, kernels = bufdecl.module_source(name)
    so = cybuild.build(src, name, os.path.join(work, "c17", name), ext=".pyx")
    imp, outs = runner.run_cases("so", so, name, [{"expr": "bufdrive.layout(M)"}], support=(runner.VSUPPORT,) + tuple(MODEL))
    if imp[0] != "ok" or outs[0][0] != "ok":
        raise RuntimeError("C17 module %s unusable: %r %r" % (name, imp, outs))
    lay = json.loads(ast.literal_eval(outs[0][1][1]))
    for i in bufdecl.MODULES[name]:
        if lay[i] != bufdecl.model_layout(i):
            raise RuntimeError("C17 layout model mismatch for %s: compiled %r, model %r" % (i, lay[i], bufdecl.model_layout(i)))
    return {"name": name, "so": so, "kernels": kernels, "src": src}


def make_jobs(name, kernels, seed, quick):
    D = bufdecl.decls()
    jobs = []
    for k, i, nd, contig, kind in kernels:
        t = D[i]
        rng = random.Random(hyp.derive(seed, "c17", name, k))
        if "_" in k and k.split("_")[0] in ("mv", "cmv", "lb"):
            cases = cases_1d(rng, i, t, kind, quick)
            if not quick:
                for rep in range(4):
                    cases += cases_1d(rng, i, t, kind, quick)
            for c in risky_cases(rng, i, t):
                jobs.append({"k": k, "dtype": i, "kind": kind, "nd": nd, "cases": [c], "risky": True})
        else:
            cases = cases_nd(rng, i, t, nd, contig, kind, quick)
            if not quick:
                for rep in range(4):
                    cases += cases_nd(rng, i, t, nd, contig, kind, quick)
        jobs.append({"k": k, "dtype": i, "kind": kind, "nd": nd, "cases": cases, "risky": False})
    return jobs


def run_jobs(so, name, jobs, case_timeout=120):
    cases = [{"expr": "bufdrive.run(M, %r)" % json.dumps([{k: v for k, v in j.items() if k != "risky"}])} for j in jobs]
    imp, outs = runner.run_cases("so", so, name, cases, support=(runner.VSUPPORT,) + tuple(MODEL),
                                 case_timeout=case_timeout, timeout=case_timeout * 4 + 60, max_restarts=len(cases) + 3)
    if imp[0] != "ok":
        raise RuntimeError("C17 module %s failed to import: %r" % (name, imp))
    res = []
    for o in outs:
        if o[0] == "ok" and o[1][0] == "str":
            res.append(json.loads(ast.literal_eval(o[1][1]))[0])
        elif o[0] == "crash":
            res.append(("crash", o[1], (o[2] if len(o) > 2 else "")[-300:]))
        elif o[0] in ("timeout", "notrun"):
            res.append((o[0],))
        else:
            res.append(("error", json.dumps(o)[:1500]))
    return res


def replay_dict(name, src, job, case):
    """Self-contained replay: a one-kernel module (exporter + the declared type + the kernel) and the exporter case."""
    small, _ = bufdecl.module_source(name, only=(job["dtype"], job["k"]))
    return {"module": "c17r", "src": small, "k": job["k"], "dtype": job["dtype"], "kind": job["kind"], "nd": job.get("nd", 1),
            "case": case}


def _drive(arg):
    so, name, src, jobs = arg
    tree.activate_view()
    part = harness.Part()
    results = run_jobs(so, name, jobs)
    for job, res in zip(jobs, results):
        if isinstance(res, tuple):
            if res[0] == "crash":
                if len(job["cases"]) > 1:
                    # localise: one runner case per input
                    singles = [dict(job, cases=[c]) for c in job["cases"]]
                    for sj, sr in zip(singles, run_jobs(so, name, singles, case_timeout=30)):
                        _record(part, name, src, sj, sr)
                else:
                    _record(part, name, src, job, res)
            elif res[0] in ("timeout", "notrun"):
                part.count("timeouts")
            else:
                raise RuntimeError("C17 driver error in %s: %s" % (job["k"], res[1]))
            continue
        _record(part, name, src, job, res)
    return part


def _record(part, name, src, job, res):
    if isinstance(res, tuple):
        if res[0] == "crash":
            c = job["cases"][0]
            part.evaluations += 1
            part.count("crashes")
            part.violation("%s|%s|%s|crash:%s" % (job["kind"], c["expect"], c["cls"], res[1]), replay_dict(name, src, job, c),
                           "%s on %s with format %r itemsize %d shape %r: process killed by %s %s" % (
                               job["k"], job["dtype"], c["fmt"], c["itemsize"], c["shape"], res[1], res[2][-200:]))
        else:
            part.count("timeouts")
        return
    part.evaluations += res["n"]
    part.counters["nt_exact"] += res["nt"]
    for cl, n in res["cls"].items():
        part.classes[cl] += n
    for key in res["ntkeys"]:
        part.evaluations -= 1
        part.case(key, True, None, sample={"kernel": key[0], "class": key[1], "format": key[2], "itemsize": key[3],
                                          "shape": key[4], "strides": key[5]})
    for bucket, case, what in res["bad"]:
        part.violation(bucket, replay_dict(name, src, job, case), what)
    part.counters["misjudged_inputs"] += res["nbad"]


def run(ctx):
    built = ctx.pmap(_build, [(name, ctx.work) for name in bufdecl.MODULES])
    tasks = []
    nk = 0
    for b in built:
        jobs = make_jobs(b["name"], b["kernels"], ctx.seed, ctx.quick)
        nk += len(b["kernels"])
        risky = [j for j in jobs if j["risky"]]
        normal = [j for j in jobs if not j["risky"]]
        nb = 6 if ctx.quick else 16
        for c in range(nb):
            chunk = normal[c::nb]
            if chunk:
                tasks.append((b["so"], b["name"], b["src"], chunk))
        if risky:
            tasks.append((b["so"], b["name"], b["src"], risky))
    ctx.pmap(_drive, tasks)
    ctx.counters["kernels"] = nk
    ctx.extra["distinct_nontrivial_exact"] = int(ctx.counters.get("nt_exact", 0))
    ctx.rule = ("(declared dtype, acquisition form, exporter) triples: 26 dtypes x {T[:], object[T, ndim=1], const T[:] (7 dtypes)} x every "
                "constructed format spelling (accept set), single-point mutation (reject set) and debatable spelling (either set, "
                "not judged), plus wrong itemsize / ndim, read-only exporters, item layouts (contiguous, gaps, negative stride, "
                "n = 0..4) and, for double / short / S1, 8 contiguity / ndim declarations x {C, F, gap, row-gap, negative} "
                "layouts x {conforming, lenient} exporter. accepted acquisitions must read the values struct.unpack reads from "
                "the raw bytes (floats incl. inf / nan / -0.0 / denormals, random integer bytes); rejections must raise ValueError "
                "or TypeError (BufferError where the conforming exporter itself refuses) and release the buffer. raw bytes and "
                "item layouts come from a PRNG seeded per kernel. non-trivial = the format has a prefix, repeat count, padding "
                "or T{}, or the case is a mutation; distinct by (kernel, class, format, itemsize, shape, strides). "
                "distinct_nontrivial is a bounded hashed sample; coverage.distinct_nontrivial_exact is the exact count")
    ctx.assumptions = ["x86-64 SysV layout model, verified against the compiled sizeof / offsets table of every module",
                       "struct.unpack (native little-endian) is the value oracle; long double through numpy",
                       "a space inside an array extent list '(2, 3)d' is not generated: __pyx_buffmt_parse_array loops forever on it "
                       "(`continue` without advancing), which only a wall-clock timeout could show - see notes/C17.md",
                       "formats beyond the stated grammar (suboffsets / indirect buffers, 'O', 'P', 'e') and exporters that return format == NULL although PyBUF_FORMAT was requested are not generated",
                       "a struct with an array-of-structs member (S9) cannot be compiled as a buffer dtype (recorded finding, compile-only replay)"]


# ------------------------------------------------------------------------------------------------ replay
_cache = {}


def _build_src(arg):
    src, name, work = arg
    tree.activate_view()
    key = cybuild.sha12(src)
    return key, cybuild.build(src, name, os.path.join(work, "c17replay", key), ext=".pyx")


def _prebuild(ctx, case):
    """Build the one-kernel module of this case - and, on first use, of all committed replays - in parallel."""
    todo = {cybuild.sha12(case["src"]): (case["src"], case["module"])}
    if not _cache:
        for _, rep in harness.committed_replays(PID):
            c = rep.get("case", {})
            if c.get("kind") != "compile" and "src" in c:
                todo.setdefault(cybuild.sha12(c["src"]), (c["src"], c["module"]))
    for key, so in ctx.pmap(_build_src, [(src, name, ctx.work) for src, name in todo.values()]):
        _cache[key] = so


def replay(ctx, case):
    tree.activate_view()
    if case.get("kind") == "compile":
        outdir = os.path.join(ctx.work, "c17replay", "cc" + cybuild.sha12(case["src"]))
        os.makedirs(outdir, exist_ok=True)
        path = os.path.join(outdir, "c17c.pyx")
        with open(path, "w") as f:
            f.write(case["src"])
        try:
            cybuild.cython_compile(path)
        except cybuild.CythonError as e:
            return True, "compiler rejects the buffer dtype %s: %s" % (case["dtype"], (e.errors or ["?"])[0][-200:])
        except Exception as e:      # noqa  (internal compiler exception)
            import traceback
            tb = traceback.extract_tb(e.__traceback__)[-1]
            return True, "compiler dies with %s in %s:%s (%s) on a buffer of dtype %s" % (
                type(e).__name__, os.path.basename(tb.filename), tb.name, tb.line, case["dtype"])
        return False, "compiles"
    key = cybuild.sha12(case["src"])
    if key not in _cache:
        _prebuild(ctx, case)
    so = _cache[key]
    job = {"k": case["k"], "dtype": case["dtype"], "kind": case["kind"], "nd": case.get("nd", 1), "cases": [case["case"]]}
    res = run_jobs(so, case["module"], [job], case_timeout=30)[0]
    if isinstance(res, tuple):
        if res[0] == "crash":
            return True, "process killed by %s" % res[1]
        return False, "inconclusive: %r" % (res,)
    if res["bad"]:
        return True, res["bad"][0][2]
    return False, "judged as expected (n=%d)" % res["n"]
