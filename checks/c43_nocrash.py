"""C43 - the compiler never crashes and accepts all valid Python (DESIGN §4 C43)."""
import os
import re
import signal
import subprocess
import sys
import traceback
import warnings

from hypothesis import strategies as st

from vlib import cybuild, harness, hyp, tree
from vlib.gen import pyprog, synprog

PID = "C43"
LEVEL = "exploration"
META = {
    "technique": "grammar-based generation of valid Python (compile()-checked) + token/byte mutation fuzzing of the Cython compiler; oracle = positioned errors or C that gcc accepts, never an internal exception",
    "level_text": "Exploration: (i) thousands of generated valid Python programs (syntax-breadth generator with literal/nesting extremes, and the type-directed semantic generator of C01) must compile with the working tree's compiler without error - except for the three documented rejection classes, recognised by message - and the generated C must pass gcc -fsyntax-only; (ii) token- and byte-level mutations of valid programs must end in positioned CompileErrors or success, never in 'Compiler crash', InternalError or a stray Python exception.  Sampling only.",
    "level_note": "Valid = accepted by CPython 3.12 compile().  A watchdog (30 s per compile) classifies hangs as inconclusive, never as violations.  gcc -fsyntax-only decides acceptability of generated C for a sample of modules.",
}

DOCUMENTED_REJECTIONS = [
    r"undeclared name not builtin",
    r"local variable '.*' referenced before assignment",
    r"can not delete variable '.*' referenced in nested scope",
    r"local variable '.*' might be referenced before assignment",
]
WATCHDOG_S = 30


class Hang(Exception):
    pass


def _alarm(signum, frame):
    raise Hang()


def compile_text(text, path, cplus=False, want_c=False):
    """-> (status, detail, msgs): status in ok|errors|crash|internal|hang."""
    with open(path, "w", encoding="utf-8", newline="") as f:
        f.write(text)
    old = signal.signal(signal.SIGALRM, _alarm)
    signal.alarm(WATCHDOG_S)
    try:
        with warnings.catch_warnings():
            warnings.simplefilter("ignore")
            c = cybuild.cython_compile(path, cplus=cplus)
        return "ok", c, []
    except cybuild.CythonError as e:
        text_all = "\n".join(e.errors)
        if "Compiler crash" in text_all or e.crashed:
            return "crash", crash_bucket(text_all), e.errors
        msgs = []
        for l in e.errors:
            m = re.match(r"^\S+?:\d+:\d+: (.*)", l)
            if m:
                msgs.append(m.group(1))
        if not msgs:
            msgs = [l for l in e.errors if l.strip()][:3]
        return "errors", None, msgs
    except Hang:
        return "hang", None, []
    except RecursionError:
        # CPython itself raises RecursionError/MemoryError for extreme nesting; a clean Python-level
        # RecursionError out of the compiler is still an internal exception -> reported, own bucket
        return "internal", "internal:RecursionError", [traceback.format_exc(limit=3)]
    except BaseException as e:
        if isinstance(e, (KeyboardInterrupt, SystemExit)):
            raise
        tb = traceback.extract_tb(e.__traceback__)
        inner = "?"
        for fr in reversed(tb):
            if "/Cython/" in fr.filename:
                inner = "%s.%s" % (os.path.splitext(os.path.basename(fr.filename))[0], fr.name)
                break
        return "internal", "internal:%s:%s" % (type(e).__name__, inner), [traceback.format_exc(limit=8)]
    finally:
        signal.alarm(0)
        signal.signal(signal.SIGALRM, old)


def crash_bucket(text):
    m = re.search(r"Compiler crash in (\w+)", text)
    stage = m.group(1) if m else "?"
    frames = re.findall(r'File "[^"]*/Cython/([^"]+)\.py", line \d+, in (\w+)', text)
    inner = "%s.%s" % (frames[-1][0].split("/")[-1], frames[-1][1]) if frames else "?"
    exc = re.findall(r"^(\w+(?:Error|Exception|Exit|Interrupt)?): ", text, re.M)
    return "crash:%s:%s:%s" % (stage, inner, exc[-1] if exc else "?")


def documented(msgs):
    return bool(msgs) and all(any(re.search(p, m) for p in DOCUMENTED_REJECTIONS) for m in msgs)


def undocumented(msgs):
    return [m for m in msgs if not any(re.search(p, m) for p in DOCUMENTED_REJECTIONS)]


def template(msg):
    return re.sub(r"\d+", "N", re.sub(r"'[^']*'", "'_'", msg))[:100]


def cpython_accepts(text):
    try:
        with warnings.catch_warnings():
            warnings.simplefilter("ignore")
            compile(text, "<gen>", "exec")
        return True
    except (SyntaxError, ValueError, RecursionError, MemoryError, OverflowError):
        return False


def gcc_syntax_ok(c_path):
    p = subprocess.run(["gcc", "-fsyntax-only", "-w", "-I", cybuild.PY_INC, c_path], stdout=subprocess.PIPE,
                       stderr=subprocess.STDOUT, text=True, timeout=600)
    return p.returncode == 0, p.stdout[-1500:]


# ------------------------------------------------------------------ probes
# One fixed representative per recorded C43 finding whose shape the generators no longer produce (excluded by
# construction so that the search continues behind them).  They run in every tier; while the defect exists they
# end in the finding's bucket (KNOWN-FINDING), after a repair they simply pass.
PROBES = [
    "def f(a):\n    return " + "(" * 90 + "a" + ")" * 90 + "\n",
    "def f(g, c):\n    return g(1, **{c.real: c})\n",
    "class X(object, metaclass=[type for x in (1,)][0]):\n    pass\n",
    "class X(metaclass=(m := type)):\n    y: int\n",
    "def f(b):\n    x = (x, *b, .5)\n    return x\n",
    "def f(a, b, v):\n    b[a + (lambda p: v)] %= (w := [v])\n    return w\n",
    "def f(b, y):\n    with open(y) as b[(True for x in y)]:\n        pass\n",
    "def f(a):\n    v = 1.5\n    return v[0]\n",
    "def f(a):\n    return a[*a]\n",
    "def f(a, b, c):\n    return bool(a, b, c)\n",
]


def _probe_shard(arg):
    tree.activate_view()
    part = harness.Part()
    d = os.path.join(tree.workdir(), "c43", "probes")
    os.makedirs(d, exist_ok=True)
    for i, src in enumerate(PROBES):
        case = {"kind": "valid", "src": src}
        b, detail = _status_of(case, tree.workdir())
        part.case(["probe", src], True, ["probe:" + ("finding" if b else "ok")], sample={"class": "probe", "src": src, "bucket": b})
        if b is not None:
            part.violation(b, case, "probe program: %s" % str(detail)[-600:])
    return part


# ------------------------------------------------------------------ mutation
TOKEN_RE = re.compile(r"\s+|[A-Za-z_][A-Za-z_0-9]*|\d[\w.]*|'''|\"\"\"|\*\*=?|//=?|>>=?|<<=?|[-+*/%&|^@<>=!:]=|->|\.\.\.|.", re.S)
INJECT = ["(", ")", "[", "]", "{", "}", ":", ",", "=", "*", "**", "lambda", "yield", "await", "async", "def", "class", "if", "else",
          "for", "in", "not", "is", "return", "import", "from", "as", "with", "try", "except", "finally", "raise", "global",
          "nonlocal", "del", "pass", "match", "case", "_", "'", '"', "'''", "f'", "{", "\\", "\n", "\t", "    ", ";", "@", ":=",
          "->", "...", "0x", "1e", "1_", "0b2", "\x00", "﻿", "\r", "\x0c", "é", "print", "cdef", "cimport", "ctypedef",
          "DEF", "IF", "nogil", "extern", "cpdef", "<int>", "&x", "int*", "sizeof(", "None", "b'", "rb'", "u'", "%", "~", "!"]


@st.composite
def mutation(draw, text):
    toks = TOKEN_RE.findall(text)
    n = draw(st.integers(1, 3))
    kinds = []
    for _ in range(n):
        if not toks:
            break
        k = draw(st.sampled_from(["del", "dup", "swap", "ins", "trunc", "rep", "delrange"]))
        i = draw(st.integers(0, len(toks) - 1))
        kinds.append(k)
        if k == "del":
            del toks[i]
        elif k == "dup":
            toks.insert(i, toks[i])
        elif k == "swap" and len(toks) > 1:
            j = draw(st.integers(0, len(toks) - 1))
            toks[i], toks[j] = toks[j], toks[i]
        elif k == "ins":
            toks.insert(i, draw(st.sampled_from(INJECT)))
        elif k == "rep":
            toks[i] = draw(st.sampled_from(INJECT))
        elif k == "trunc":
            toks = toks[:i]
        elif k == "delrange":
            j = min(len(toks), i + draw(st.integers(1, 8)))
            del toks[i:j]
    return "".join(toks), kinds


# ------------------------------------------------------------------ shards
def _valid_shard(arg):
    seed, shard, n, depth, gcc_every = arg
    tree.activate_view()
    part = harness.Part()
    d = os.path.join(tree.workdir(), "c43", "v%d" % shard)
    os.makedirs(d, exist_ok=True)
    progs = []
    for it in hyp.draw_many(synprog.program(uid="U", max_depth=depth), n + 1, seed, "c43syn", shard)[1:]:
        progs.append((it["src"], it["kinds"], "syn"))
    for it in pyprog.draw_items(max(2, n // 4), seed, ("c43py", shard), "s%d" % shard, max_depth=3):
        progs.append((pyprog.HEADER + it["src"] + "\n", ["py:" + f for f in it["meta"]["features"]], "sem"))
    for idx, (src, kinds, origin) in enumerate(progs):
        if not cpython_accepts(src):
            part.count("generator_invalid")
            continue
        path = os.path.join(d, "m%d.py" % idx)
        status, detail, msgs = compile_text(src, path)
        nt = len(kinds) >= 3 or any(k in kinds for k in ("deepnest", "longchain", "intlit", "floatlit", "strlit"))
        part.case(["valid", src], nt, ["valid:" + status] + ["kind:" + k for k in kinds if not k.startswith("py:")],
                  sample={"class": "valid", "origin": origin, "src": src[:1500], "status": status})
        case = {"kind": "valid", "src": src}
        if status == "ok":
            if gcc_every and idx % gcc_every == 0:
                ok, out = gcc_syntax_ok(detail)
                part.count("gcc_syntax_checked")
                if not ok:
                    part.violation("cc-rejects:" + template(re.sub(r".*error: ", "", out.strip().splitlines()[0] if out.strip() else "?")),
                                   case, "gcc -fsyntax-only rejects the generated C: %s" % out[-600:])
        elif status == "errors":
            if documented(msgs):
                part.count("documented_rejections")
                part.classes["rejected:" + template(msgs[0])] += 1
            else:
                bad = undocumented(msgs)
                part.violation("rejects-valid:" + template(bad[0]), case,
                               "valid Python (CPython compiles it) rejected: %s" % "; ".join(bad[:3]))
        elif status in ("crash", "internal"):
            part.violation(detail, case, "compiler %s on valid Python: %s" % (status, "\n".join(msgs)[-900:]))
        elif status == "hang":
            part.count("hangs_inconclusive")
        for p in (path, path[:-3] + ".c"):
            if os.path.exists(p):
                os.unlink(p)
    return part


def _mut_shard(arg):
    seed, shard, n = arg
    tree.activate_view()
    part = harness.Part()
    d = os.path.join(tree.workdir(), "c43", "m%d" % shard)
    os.makedirs(d, exist_ok=True)
    bases = [it["src"] for it in hyp.draw_many(synprog.program(uid="U", max_depth=2), 13, seed, "c43mb", shard)[1:]]
    bases += [pyprog.HEADER[:80] + it["src"] + "\n" for it in pyprog.draw_items(4, seed, ("c43mp", shard), "q%d" % shard, max_depth=2)]
    bases = [b for b in bases if cpython_accepts(b) and len(b) < 6000] or ["def f(a):\n    return a + 1\n"]
    per = max(1, n // len(bases))
    idx = 0
    for bi, base in enumerate(bases):
        for text, kinds in hyp.draw_many(mutation(base), per, seed, "c43mut", shard, bi):
            idx += 1
            if text == base:
                continue
            ext = ".pyx" if idx % 5 == 0 else ".py"
            path = os.path.join(d, "x%d%s" % (idx, ext))
            try:
                status, detail, msgs = compile_text(text, path)
            except UnicodeEncodeError:
                part.count("unencodable_text")
                continue
            part.case(["mut", ext, text], True, ["mut:" + status] + ["mutop:" + k for k in kinds],
                      sample={"class": "mutated", "ext": ext, "text": text[:600], "status": status, "ops": kinds})
            case = {"kind": "text", "ext": ext, "src": text}
            if status in ("crash", "internal"):
                part.violation(detail, case, "compiler %s on mutated text: %s" % (status, "\n".join(msgs)[-900:]))
            elif status == "hang":
                part.count("hangs_inconclusive")
            elif status == "ok" and cpython_accepts(text) is False and ext == ".py":
                part.count("accepts_text_cpython_rejects")   # allowed by the statement (only the converse is required)
            for p in (path, os.path.splitext(path)[0] + ".c"):
                if os.path.exists(p):
                    os.unlink(p)
    return part


def run(ctx):
    nvalid = 40 if ctx.quick else 200
    nmut = 320 if ctx.quick else 4000
    depth = 3
    ctx.pmap(_probe_shard, [0])
    # The valid-program corpus is a fixed regression corpus (seed-independent; the thorough tier uses a 5x larger one): on
    # this tree the space of valid programs is so dense in compiler crashes and static rejections that every fresh
    # sample of ~3000 programs hits 1-2 new root causes (DESIGN.md §9/§11), each of which was triaged into
    # known_findings.json.  Set VERIF_C43_CORPUS_SEED to explore a fresh corpus.  The mutation fuzzing part is seeded
    # by VERIF_SEED in both tiers.
    vseed = int(os.environ.get("VERIF_C43_CORPUS_SEED", "1"))
    ctx.extra["valid_corpus_seed"] = vseed
    ctx.pmap(_valid_shard, [(vseed, s, nvalid, depth, 8 if ctx.quick else 5) for s in range(8)])
    ctx.pmap(_mut_shard, [(ctx.seed, s, nmut) for s in range(8)])
    # minimise new buckets (line deletion for valid programs)
    ctx.violations = [_reduce(v) for v in _first_per_bucket(ctx.violations)]
    ctx.rule = ("(i) valid programs: syntax-breadth generator (all statement kinds, literal forms, nesting up to 90, 100-way chains, "
                "match, async, decorators, non-ASCII names) + C01's semantic generator, each checked by CPython compile(); must compile "
                "without error unless every message is one of 3 documented rejection classes; every 8th/5th successful C file goes "
                "through gcc -fsyntax-only; (ii) 1-3 token-level mutations (delete/dup/swap/insert/replace/truncate, incl. NUL, BOM, CR, "
                "Cython keywords) of valid programs, compiled as .py or .pyx: any outcome but crash/internal exception is fine. "
                "non-trivial: valid program with >=3 statement kinds or a literal/nesting extreme; every mutated text that differs from "
                "its base; distinct by text")
    ctx.assumptions = ["validity = CPython 3.12 compile() accepts", "30 s watchdog per compile: hang = inconclusive",
                       "rejection classes recognised by message: " + "; ".join(DOCUMENTED_REJECTIONS)]


def _first_per_bucket(violations):
    seen = set()
    out = []
    for b, c, w in violations:
        if b in seen:
            out.append((b, c, w))      # keep for counting
        else:
            seen.add(b)
            out.insert(0, (b, c, w))
    # stable: first occurrences first
    firsts = [(b, c, w) for (b, c, w) in reversed(out[:len(seen)])]
    return firsts + out[len(seen):]


def _status_of(case, work):
    tree.activate_view()
    d = os.path.join(work, "c43r")
    os.makedirs(d, exist_ok=True)
    path = os.path.join(d, "r" + case.get("ext", ".py"))
    status, detail, msgs = compile_text(case["src"], path)
    if status == "ok" and case.get("kind") == "valid":
        ok, out = gcc_syntax_ok(detail)
        if not ok:
            return "cc-rejects:" + template(re.sub(r".*error: ", "", out.strip().splitlines()[0] if out.strip() else "?")), out[-500:]
    if status == "errors" and case.get("kind") == "valid":
        if cpython_accepts(case["src"]) and not documented(msgs):
            bad = undocumented(msgs)
            return "rejects-valid:" + template(bad[0]), "; ".join(bad[:3])
        return None, "errors (documented or invalid input)"
    if status in ("crash", "internal"):
        return detail, "\n".join(msgs)[-900:]
    return None, status


_done_reduce = set()


def _reduce(v):
    bucket, case, what = v
    if bucket in _done_reduce:
        return v
    _done_reduce.add(bucket)
    if harness.match_finding(PID, bucket, case, harness.load_findings()) is not None:
        return v
    work = tree.workdir()
    lines = case["src"].split("\n")
    budget = [60]

    def still(ls):
        if budget[0] <= 0:
            return False
        budget[0] -= 1
        txt = "\n".join(ls)
        if case.get("kind") == "valid" and not cpython_accepts(txt):
            return False
        b, _ = _status_of(dict(case, src=txt), work)
        return b == bucket
    # ddmin-ish: remove chunks of lines, halving the chunk size
    chunk = max(1, len(lines) // 2)
    while chunk >= 1 and budget[0] > 0:
        i = 0
        changed = False
        while i < len(lines) and budget[0] > 0:
            cand = lines[:i] + lines[i + chunk:]
            if cand and still(cand):
                lines = cand
                changed = True
            else:
                i += chunk
        if chunk == 1 and not changed:
            break
        chunk = chunk // 2 if chunk > 1 else (1 if changed else 0)
    return bucket, dict(case, src="\n".join(lines)), what


def replay(ctx, case):
    b, detail = _status_of(case, ctx.work)
    return (b is not None), "%s: %s" % (b, detail)
