"""C38 - pure-Python mode behaves the same interpreted (Shadow.py) and compiled (DESIGN §4 C38, E1 + E2 + E3).

(i)  Shadow functions directly: Cython.Shadow.cdiv / cmod / cast from the working tree are called in-process on
     exhaustive 8-bit signed pairs, boundary^2 and random 16/32/64-bit pairs and judged against exact C99
     semantics; the COMPILED twins (`cython.cdiv(a, b)` etc. in a pure-mode .py module with typed arguments) are
     driven with the same inputs and the same judge.
(ii) Generated pure-mode programs (vlib/gen/puremode.py: @cython.locals / annotations / cython.declare /
     @cfunc / @ccall + @returns / @cclass / cython.typedef, cast, cdiv, cmod, typed loops) whose values stay inside the
     declared C ranges by construction are run by CPython with the shadow `cython` module and compiled; results and
     exception types must agree.
"""
import os

from hypothesis import strategies as st

from vlib import cintmodel as cm
from vlib import cybuild, diffmod, harness, hyp, ktable, runner, tree
from vlib.gen import puremode

PID = "C38"
LEVEL = "exploration"
META = {
    "technique": "(i) exhaustive/boundary/random differential test of Shadow.cdiv/cmod/cast against exact C semantics and against compiled twin kernels; (ii) differential module batches of generated range-safe pure-mode programs: CPython + shadow cython module vs compiled",
    "level_text": "Exploration with an exhaustive finite sub-space: Shadow.cdiv and Shadow.cmod are evaluated on all 65280 signed 8-bit pairs with b != 0 and on boundary^2 + random 16/32/64-bit pairs against exact truncating division, and the compiled `cython.cdiv/cmod` twins see the same inputs; Shadow.cast and its compiled twins are compared for int kinds, double, float, bint and object on in-range ints and floats with fractional parts. Hundreds of generated pure-mode functions per run (typed locals via @cython.locals, annotations, cython.declare, cfunc/ccall with @returns, cclass attributes, typedefs; cast, cdiv, cmod, //, %, typed accumulation loops) are executed interpreted and compiled and compared call by call. Sampling; no proof.",
    "level_note": "Generated programs keep every integer value inside int32 and every typed local inside its declared type by interval arithmetic; only signed types; cdiv/cmod divisors are non-zero by construction; cython.compiled branches, structs/unions/pointers/arrays and unsigned types are not generated. Exception types (not messages) are compared.",
}

K = 24
DIV_TYPES = [("cython.schar", 8), ("cython.short", 16), ("cython.int", 32), ("cython.long", 64), ("cython.longlong", 64)]
CAST_KERNELS = [
    # name, target type expr, arg annotation, class of inputs
    ("int_from_double", "cython.int", "cython.double", "dbl_i32"),
    ("long_from_double", "cython.long", "cython.double", "dbl_i53"),
    ("short_from_double", "cython.short", "cython.double", "dbl_i15"),
    ("longlong_from_int", "cython.longlong", "cython.int", "int32"),
    ("int_from_long", "cython.int", "cython.long", "int32"),
    ("double_from_int", "cython.double", "cython.int", "int32"),
    ("double_from_long", "cython.double", "cython.long", "int53"),
    ("double_from_double", "cython.double", "cython.double", "dbl_any"),
    ("float_from_double", "cython.float", "cython.double", "dbl_f32"),
    ("bint_from_int", "cython.bint", "cython.int", "int32"),
    ("bint_from_double", "cython.bint", "cython.double", "dbl_any"),
    ("object_from_object", "object", "object", "objects"),
    ("typedef_int_from_double", "TD_INT", "cython.double", "dbl_i32"),
    ("typedef_double_from_int", "TD_DBL", "cython.int", "int32"),
]
TWIN_HEADER = "import cython\nTD_INT = cython.typedef(cython.int)\nTD_DBL = cython.typedef(cython.double)\n"


def twin_source():
    out = [TWIN_HEADER]
    ks = []
    for t, bits in DIV_TYPES:
        for fn in ("cdiv", "cmod"):
            k = "k_%s_%s" % (fn, t.split(".")[1])
            text = "def %s(a: %s, b: %s):\n    return cython.%s(a, b)\n" % (k, t, t, fn)
            ks.append(dict(k=k, kind=fn, T=t, bits=bits, text=text, src=TWIN_HEADER + text))
            out.append(text)
    for fn in ("cdiv", "cmod"):
        for tn, t in (("abs_ssize", "cython.Py_ssize_t"), ("abs_short", "cython.short"), ("abs_int", "cython.int")):
            k = "k_%s_%s" % (fn, tn)
            text = "def %s(a: %s, b: %s):\n    return cython.%s(a, abs(b) + 1)\n" % (k, t, t, fn)
            ks.append(dict(k=k, kind="absdiv", fn=fn, T=tn, text=text, src=TWIN_HEADER + text))
            out.append(text)
    for name, target, argt, cls in CAST_KERNELS:
        k = "k_cast_" + name
        sig = "v: %s" % argt if argt != "object" else "v"
        text = "def %s(%s):\n    return cython.cast(%s, v)\n" % (k, sig, target)
        ks.append(dict(k=k, kind="cast", name=name, target=target, cls=cls, text=text, src=TWIN_HEADER + text))
        out.append(text)
    return "".join(out), ks


def div_inputs(bits, seed, quick, tag):
    lo, hi = cm.bounds(bits, True)
    if bits == 8:
        return {"kind": "grid", "ranges": [[lo, hi], [lo, hi]]}
    bv = cm.boundary_values(lo, hi, dense=not quick)
    return {"kind": "cat", "parts": [
        {"kind": "product", "axes": [bv, bv]},
        {"kind": "list", "items": [list(t) for t in hyp.draw_many(st.tuples(st.integers(lo, hi), st.integers(lo, hi)),
                                                                   (200 if quick else 5000) + 1, seed, "c38div", tag)[1:]]},
        {"kind": "rand", "seed": hyp.derive(seed, "c38", tag), "n": 20000 if quick else 400000, "ranges": [[lo, hi], [lo, hi]],
         "small_b": True}]}


def cast_inputs(cls, seed, quick, tag):
    import struct
    n = 300 if quick else 20000
    ints32 = sorted(set([0, 1, -1, 2, -2, 127, 128, -128, -129, 32767, -32768, 65535, 2 ** 31 - 1, -2 ** 31] +
                        hyp.draw_many(st.integers(-2 ** 31, 2 ** 31 - 1), n + 1, seed, "c38cast", tag)[1:]))
    if cls == "int32":
        return [[v] for v in ints32]
    if cls == "int53":
        vs = sorted(set(ints32 + [2 ** 53, -2 ** 53, 2 ** 53 - 1, 2 ** 40 + 1] +
                        hyp.draw_many(st.integers(-2 ** 53, 2 ** 53), n + 1, seed, "c38cast53", tag)[1:]))
        return [[v] for v in vs]
    if cls == "objects":
        return [[v] for v in [0, 1, -5, 2 ** 70, cm.encode_num(1.5), ["c", 1.0, -2.0], True, ["sub", 3]]]
    lim = {"dbl_i32": 2.0 ** 31 - 1, "dbl_i53": 2.0 ** 53, "dbl_i15": 32767.0, "dbl_any": 1e300, "dbl_f32": 1e30}[cls]
    base = [0.0, -0.0, 0.5, -0.5, 0.999999, -0.999999, 1.0, -1.0, 1.5, -1.5, 2.5, -2.5, 127.9, -128.9, 32766.99, -32766.99, 1e-300,
            -1e-300, 5e-324, lim, -lim, lim - 0.5 if lim < 1e15 else lim / 3, 0.1, -0.1, 1e9 + 0.5]
    fl = st.floats(-lim, lim, allow_nan=False, allow_infinity=False)
    vals = base + hyp.draw_many(fl, n + 1, seed, "c38castf", tag)[1:]
    vals = [v for v in vals if abs(v) <= lim]
    if cls == "dbl_f32":
        vals = [struct.unpack("f", struct.pack("f", v))[0] for v in vals]      # float32-representable: in-range for C float
    return [[cm.encode_num(v)] for v in vals]


cast_want = cm.cast_want


def shadow_part(arg):
    """E1: Shadow.cdiv / cmod / cast in-process against exact C semantics."""
    seed, quick, shard = arg
    tree.activate_view()
    import Cython.Shadow as S
    assert S.__file__.startswith(os.environ["CYVERIF_VIEW"]), S.__file__
    part = harness.Part()
    src, ks = twin_source()
    ns = {"TD_INT": S.typedef(S.int), "TD_DBL": S.typedef(S.double), "cython": S, "object": object}
    for i, d in enumerate(ks):
        if i % 4 != shard:
            continue
        if d["kind"] == "absdiv":
            continue                     # same Shadow functions as below; only the compiled side differs
        if d["kind"] in ("cdiv", "cmod"):
            lo, hi = cm.bounds(d["bits"], True)
            jf = cm.JUDGES["divmod"]({"op": "//" if d["kind"] == "cdiv" else "%", "mode": "c", "opnd": [lo, hi], "res": [lo, hi],
                                      "constb": None})
            f = getattr(S, d["kind"])
            label = "shadow|fn=%s|width=%d" % (d["kind"], d["bits"])
            n = nt = 0
            bad = {}
            for a, b in cm.inputs(div_inputs(d["bits"], seed, quick, d["T"])):
                if b == 0:
                    continue                 # C: undefined; Shadow raises ZeroDivisionError - outside the statement
                w, isnt, cl = jf.expect((a, b))
                if w is cm.SKIP:
                    # MIN / -1 is UB in C, but the Shadow function itself is total: it must still be the exact quotient
                    w = cm.c_divmod(a, b)[0 if d["kind"] == "cdiv" else 1]
                got = cm.outcome(f, (a, b))
                n += 1
                if isnt:
                    nt += 1
                    if nt <= 12 or nt % 5003 == 0:
                        part.case(["c38-shadow", d["kind"], d["bits"], a, b], True, None,
                                  sample={"call": "cython.%s(%d, %d)" % (d["kind"], a, b), "interpreted": repr(got), "C": w})
                        part.evaluations -= 1
                v = jf.verdict((a, b), got, w)
                if v is not None and v not in bad:
                    bad[v] = (a, b, got, w)
            part.evaluations += n
            part.counters["nt_exact"] += nt
            part.classes[label] += n
            for v, (a, b, got, w) in bad.items():
                part.violation("shadow|fn=%s|width=%d|%s" % (d["kind"], d["bits"], v),
                               {"kind": "shadow", "fn": d["kind"], "args": [a, b], "want": w},
                               "Shadow.%s(%d, %d) returned %r, C semantics give %r" % (d["kind"], a, b, got, w))
        else:
            target = d["target"]
            t = eval(target, ns)
            label = "shadow|fn=cast|%s" % d["name"]
            bad = {}
            n = 0
            for (ev,) in cast_inputs(d["cls"], seed, quick, d["name"]):
                v = cm.decode_num(ev)
                w = cast_want(target, v)
                got = cm.outcome(S.cast, (t, v))
                n += 1
                nt = isinstance(v, float) and v != int(v) if not isinstance(v, complex) else True
                part.case(["c38-shadow-cast", d["name"], ev], bool(nt), None,
                          sample={"call": "cython.cast(%s, %r)" % (target, v), "interpreted": repr(got), "C": repr(w)})
                ok = cm.same_number(got, w) if type(w) in (int, float, bool) and type(v) is not bool else (got is v or got == w)
                if target == "cython.float":
                    ok = type(got) is float and got == w
                if not ok:
                    cls = "result-type:%s" % type(got).__name__ if type(got) is not type(w) else "wrong-value"
                    bad.setdefault(cls, (ev, got, w))
            part.classes[label] += n
            for cls, (ev, got, w) in bad.items():
                part.violation("shadow|fn=cast|%s|%s" % (d["name"], cls),
                               {"kind": "shadow", "fn": "cast", "target": target, "args": [ev], "want": repr(w)},
                               "Shadow.cast(%s, %r) returned %r, C semantics give %r" % (target, cm.decode_num(ev), got, w))
    return part


def twins_part(arg):
    """E3: the compiled twins of cdiv / cmod / cast against the same oracle."""
    seed, quick, work = arg
    tree.activate_view()
    part = harness.Part()
    src, ks = twin_source()
    name = "c38twins"
    so = cybuild.build(src, name, os.path.join(work, "c38", "twins"), ext=".py")
    specs = []
    for d in ks:
        if d["kind"] == "absdiv":
            specs.append({"k": d["k"], "judge": ["cdivabs", {"fn": d["fn"]}], "inputs": {"kind": "grid", "ranges": [[-40, 40], [-40, 40]]},
                          "label": "compiled|fn=%s|T=%s" % (d["fn"], d["T"]), "bucket": "compiled|fn=%s|T=%s" % (d["fn"], d["T"]),
                          "src": d["src"], "build": {"ext": ".py"}, "ktext": d["text"], "maxnt": 8})
        elif d["kind"] in ("cdiv", "cmod"):
            lo, hi = cm.bounds(d["bits"], True)
            rlo, rhi = cm.bounds(max(d["bits"], 32), True)      # C promotes to int before dividing
            params = {"op": "//" if d["kind"] == "cdiv" else "%", "mode": "c", "opnd": [rlo, rhi], "res": [rlo, rhi], "constb": None}
            inp = div_inputs(d["bits"], seed, quick, d["T"])
            inp = dict(inp, drop=[[lo, -1]]) if d["bits"] >= 32 else inp
            specs.append({"k": d["k"], "judge": ["divmod", params], "inputs": inp, "label": "compiled|fn=%s|T=%s" % (d["kind"], d["T"]),
                          "bucket": "compiled|fn=%s|T=%s" % (d["kind"], d["T"]), "src": d["src"], "build": {"ext": ".py"},
                          "ktext": d["text"], "maxnt": 8})
        else:
            specs.append({"k": d["k"], "judge": ["purecast", {"target": d["target"]}], "enc": "num",
                          "inputs": {"kind": "list", "items": cast_inputs(d["cls"], seed, quick, d["name"])},
                          "label": "compiled|fn=cast|%s" % d["name"], "bucket": "compiled|fn=cast|%s" % d["name"],
                          "src": d["src"], "build": {"ext": ".py"}, "ktext": d["text"], "maxnt": 8})
    results = ktable.run_raw(so, name, specs)
    _record(part, specs, results)
    return part


def _record(part, specs, results):
    for spec, res in zip(specs, results):
        if isinstance(res, tuple):
            if res[0] == "crash":
                part.violation("crash:%s|%s" % (res[1], spec["bucket"]), ktable.replay_case_of(spec, ()),
                               "compiled twin %s killed the process (%s)" % (spec["k"], res[1]))
                continue
            raise RuntimeError("C38 twin driver: %r" % (res,))
        part.evaluations += res["n"]
        part.counters["nt_exact"] += res["nt"]
        part.counters["excluded_out_of_domain"] += res["skip"]
        part.classes[spec["label"]] += res["n"]
        for args in res["ntkeys"]:
            part.case(["c38-twin", spec["k"], args], True, None, sample={"kernel": spec["ktext"], "args": args})
            part.evaluations -= 1
        seen = set()
        for verdict, args, got, want in res["bad"]:
            b = "%s|%s" % (spec["bucket"], verdict)
            if b not in seen:
                seen.add(b)
                case = ktable.replay_case_of(spec, args)
                part.violation(b, case, "%s: %s%r returned %s, C semantics give %s" % (spec["label"], spec["k"], tuple(args), got, want))


def programs_part(arg):
    seed, shard, nmods, work = arg
    tree.activate_view()
    part = harness.Part()
    outdir = os.path.join(work, "c38", "p%d" % shard)
    for m in range(nmods):
        its = []
        for j in range(K):
            uid = "%d_%d_%d" % (shard, m, j)
            style = puremode.STYLES[(j + shard + m) % len(puremode.STYLES)]
            its.append(hyp.draw_many(puremode.items(uid, style), 2, seed, "c38prog", shard, m, j)[1])
        name = "c38p_%d_%d" % (shard, m)
        for sub, res in diffmod.run_batch_isolating(its, name, outdir, header=puremode.HEADER):
            if res.status == "cyerror":
                part.count("cython_rejected_items", len(sub))
                for msg in diffmod.cy_error_messages(res.detail)[:1] or ["?"]:
                    part.classes["rejected:" + msg[:90]] += 1
                if len(sub) == 1:
                    part.violation("program:rejected:%s" % (diffmod.cy_error_messages(res.detail)[:1] or ["?"])[0][:60],
                                   {"kind": "program", "header": puremode.HEADER, "src": sub[0]["src"],
                                    "exprs": [c["expr"] for c in sub[0]["cases"]]},
                                   "valid pure-mode program rejected by the compiler: %s" % str(res.detail)[:400])
                continue
            if res.status == "ccerror":
                part.count("c_compile_failed_items", len(sub))
                if len(sub) == 1:
                    part.violation("program:ccerror", {"kind": "program", "header": puremode.HEADER, "src": sub[0]["src"],
                                                       "exprs": [c["expr"] for c in sub[0]["cases"]]},
                                   "generated C does not compile: %s" % str(res.detail)[-500:])
                continue
            if res.status == "import-diff":
                part.violation("program:import-diff", {"kind": "program", "header": puremode.HEADER,
                                                       "src": "\n\n".join(it["src"] for it in sub), "exprs": []},
                               "module import differs: %s" % res.detail)
                continue
            for it, refs, gots in zip(sub, res.ref, res.got):
                meta = it["meta"]
                for c, r, g in zip(it["cases"], refs, gots):
                    nt = meta["typed"] >= 2 and (meta["ndiv"] + meta["ncast"]) >= 1
                    part.case([it["src"], c["expr"]], nt, ["prog:style=" + meta["style"]] + ["prog:feat=" + f for f in meta["features"]] +
                              ["prog:outcome=" + r[0]],
                              sample={"src": it["src"], "call": c["expr"], "interpreted": diffmod.json_short(r),
                                      "compiled": diffmod.json_short(g)})
                    cls = diffmod.compare(r, g, "exctype")
                    if cls is not None:
                        part.violation("program:%s|style=%s" % (cls, meta["style"]),
                                       {"kind": "program", "header": puremode.HEADER, "src": it["src"], "exprs": [c["expr"]]},
                                       "%s: interpreted %s vs compiled %s" % (c["expr"], diffmod.json_short(r), diffmod.json_short(g)))
    return part


def _dispatch(job):
    kind, arg = job
    return {"twins": twins_part, "programs": programs_part, "shadow": shadow_part}[kind](arg)


def run(ctx):
    nshards = 8
    jobs = [("twins", (ctx.seed, ctx.quick, ctx.work))]
    jobs += [("programs", (ctx.seed, s, 1 if ctx.quick else 12, ctx.work)) for s in range(nshards)]
    jobs += [("shadow", (ctx.seed, ctx.quick, s)) for s in range(4)]
    ctx.pmap(_dispatch, jobs)
    ctx.extra["distinct_nontrivial_exact_shadow_and_twins"] = int(ctx.counters.get("nt_exact", 0))
    ctx.rule = ("(i) Shadow.cdiv/cmod: all signed 8-bit pairs (b != 0), boundary^2 + Hypothesis + seeded random pairs for 16/32/64 bit, "
                "oracle exact C99 truncating division; same inputs to compiled `cython.cdiv/cmod` twins (typed schar/short/int/long/"
                "longlong arguments); Shadow.cast and compiled twins for int kinds / double / float / bint / object / typedefs on in-range "
                "ints and fractional floats. non-trivial = operands of opposite sign with non-zero remainder (cdiv/cmod), float with a "
                "fractional part (cast). (ii) Hypothesis pure-mode functions (7 declaration styles; 2-5 typed locals; cast, cdiv, cmod, "
                "//, %, abs/min/max, conditional expressions, bounded typed loops; int values provably inside int32 and each local's type), "
                "24 per module, 3-6 calls each with arguments in [-60, 60] and multiples of 1/4; oracle = same source under CPython with the "
                "shadow module. non-trivial = >= 2 typed names and a division or cast; distinct by (source, call) / (function, inputs); "
                "distinct_nontrivial holds a bounded sample of the (i) cases (exact count in coverage) plus all (ii) cases")
    ctx.assumptions = ["b == 0 for cdiv/cmod is outside the statement (C undefined behaviour); MIN/-1 is only given to the Shadow function",
                       "signed types only; cython.compiled branches, struct/union/pointer/array helpers and unsigned types not generated",
                       "exception types compared, not messages"]


def replay(ctx, case):
    if case.get("kind") == "shadow":
        tree.activate_view()
        import Cython.Shadow as S
        if case["fn"] == "cast":
            ns = {"TD_INT": S.typedef(S.int), "TD_DBL": S.typedef(S.double), "cython": S, "object": object}
            v = cm.decode_num(case["args"][0])
            got = cm.outcome(S.cast, (eval(case["target"], ns), v))
            w = cast_want(case["target"], v)
            bad = not (type(got) is type(w) and (cm.same_number(got, w) if type(w) in (int, float) else got == w))
            return bad, "Shadow.cast(%s, %r) = %r, C: %r" % (case["target"], v, got, w)
        got = cm.outcome(getattr(S, case["fn"]), tuple(case["args"]))
        return got != case["want"], "Shadow.%s%r = %r, C: %r" % (case["fn"], tuple(case["args"]), got, case["want"])
    if case.get("kind") == "program":
        return diffmod.replay_case(case, os.path.join(ctx.work, "c38replay"), "exctype")
    # compiled twin
    b = case.get("build") or {}
    name = "c38r_" + cybuild.sha12(case["src"])
    so = cybuild.build(case["src"], name, os.path.join(ctx.work, "c38replay", name), ext=b.get("ext", ".py"))
    spec = {"k": case["k"], "judge": case["judge"], "inputs": {"kind": "list", "items": [case["args"]]}, "label": case.get("label", "?"),
            "enc": case.get("enc")}
    res = ktable.run_raw(so, name, [spec])[0]
    if isinstance(res, tuple):
        return res[0] == "crash", "compiled twin: %r" % (res[:2],)
    if res["bad"]:
        v, args, got, want = res["bad"][0]
        return True, "%s%r returned %s, C semantics give %s [%s]" % (case["k"], tuple(args), got, want, v)
    return False, "agrees"
