"""C32 - C function exception declarations propagate errors faithfully (DESIGN §4 C32, engine E2 `.pyx`).

The product {return type} x {exception specification} x {body behaviour chosen at run time} x {caller context} is
enumerated (vlib/gen/excspec.py); every cell is compiled and executed; the outcome is compared with a small rule
table transcribed from docs/src/userguide/language_basics.rst ("Error return values"): a raised exception reaches
the Python caller with the same type and args unless the function is noexcept, in which case it is reported exactly
once through sys.unraisablehook and the caller continues with the C default value; returning a possible sentinel
value without an exception is returned as a value.
"""
import os
import re

from vlib import cybuild, diffmod, harness, runner, runner_main, tree
from vlib.gen import excspec as xs

PID = "C32"
LEVEL = "exploration"
META = {
    "technique": "exhaustive enumeration of a finite product of cdef/cpdef exception-specification cells (return type x specification x run-time body behaviour x caller context), executed and compared with a rule table transcribed from the language documentation; sys.unraisablehook observed for noexcept",
    "level_text": "Exploration with a fully enumerated finite table: 10 return types (int, long long, unsigned int, double, bint, int*, struct by value, void, object, enum) x specifications (implicit, except V, except? V for 1-3 sentinel values, except *, noexcept, noexcept nogil, except * nogil, except? V nogil, cpdef variants) x selector (normal value, two sentinel candidates returned legitimately, raise; nogil kernels raise inside `with gil`) x caller context (def caller, intermediate cdef propagator, function pointer, operand of +1, discarded result, `with nogil` block, cpdef called from Python). Two modules: default directives and legacy_implicit_noexcept=True. Each of the ~3000 cells is checked: exception type+args reach the caller iff the specification propagates; noexcept -> exactly one unraisable report of that type, default C value returned, no error left set; sentinel returns are plain values. The exception type/args and sentinel choices rotate with the seed. A C++ module covers `except +`, `except +PyExc`, `except +handler` for 14 thrown C++ types against the documented translation table.",
    "level_note": "Oracle = hand-transcribed rule table (docs language_basics.rst, Error return values). `except V` kernels never return V without an exception (documented as the caller's bug). The value returned by a noexcept struct-returning function after an exception is unspecified and not compared. Compiled code runs in isolated runner subprocesses.",
}
_ERR = re.compile(r"^\S+?:(\d+):(\d+): (.*)")
EXCS = [("ValueError", "('boom', 3)"), ("KeyError", "('k',)"), ("OverflowError", "()"), ("ZeroDivisionError", "('z', None)")]


def _build(part, ks, name, outdir, directives):
    """Compile; kernels whose lines carry Cython errors are dropped (counted as rejected cells)."""
    ks = list(ks)
    for _ in range(6):
        chunks = ["\n".join(xs.render_kernel(k) + xs.render_callers(k)) + "\n" for k in ks]
        src = xs.HEADER + "\n".join(chunks)
        ranges, line = [], xs.HEADER.count("\n") + 1
        for ch in chunks:
            n = ch.count("\n") + 1
            ranges.append((line, line + n - 1))
            line += n
        try:
            so = cybuild.build(src, name, os.path.join(outdir, name), ext=".pyx", directives=directives)
            return ks, so
        except cybuild.CythonError as e:
            bad = {}
            for ln in e.errors:
                m = _ERR.match(ln)
                if m and "warning:" not in ln:
                    for i, (a, b) in enumerate(ranges):
                        if a <= int(m.group(1)) <= b and i not in bad:
                            bad[i] = m.group(3)
            if not bad or e.crashed:
                raise
            for i, msg in sorted(bad.items()):
                k = ks[i]
                part.count("cython_rejected_kernels")
                part.classes["rejected:%s %s: %s" % (k["type"], k["clause"] or "(implicit)", msg[:60])] += 1
            ks = [k for i, k in enumerate(ks) if i not in bad]
    raise RuntimeError("could not build a module")


def _match(expected, got):
    """expected python tuple (may contain ANY) vs canon outcome of unr()."""
    if got[0] != "ok":
        return False
    want = runner_main.canon(tuple(x if x is not xs.ANY else None for x in expected))
    g = got[1]
    if xs.ANY in expected:
        try:
            i = list(expected).index(xs.ANY)
            g = [g[0], list(g[1])]
            g[1][i] = ["None"]
        except Exception:
            return False
    return g == want


def _cell(arg):
    seed, legacy = arg
    tree.activate_view()
    part = harness.Part()
    exc = EXCS[(seed + (1 if legacy else 0)) % len(EXCS)]
    xs.set_exc(*exc)
    ks = xs.kernels()
    name = "c32%s" % ("leg" if legacy else "def")
    directives = {"legacy_implicit_noexcept": True} if legacy else None
    ks, so = _build(part, ks, name, os.path.join(tree.workdir(), "c32"), directives)
    cases, meta = [], []
    for k in ks:
        for ctx in xs.contexts(k):
            for sel in k["sels"]:
                fn = "M.%s" % k["id"] if ctx == "P" else "M.%s_%s" % (ctx, k["id"])
                cases.append({"expr": "unr(%s, %d)" % (fn, sel)})
                meta.append((k, ctx, sel))
    imp, got = runner.run_cases("so", so, name, cases, setup=xs.SETUP)
    if imp[0] != "ok":
        part.violation("import;%s" % name, {"legacy": legacy, "seed": seed, "kernel": None}, "module import failed: %s" % (imp,))
        return part
    for (k, ctx, sel), c, g in zip(meta, cases, got):
        want = xs.expected(k, ctx, sel, legacy)
        behaviour = {0: "normal", 1: "sentinel1", 2: "raise", 3: "sentinel2"}[sel]
        nt = sel in (1, 2, 3) and k["type"] != "void" or sel == 2
        part.case([legacy, exc, k, ctx, sel], nt,
                  ["type:" + k["type"], "spec:" + k["spec"] + ("-nogil" if k["nogil"] else "") + ("-cpdef" if k["cpdef"] else ""),
                   "ctx:" + ctx, "behaviour:" + behaviour, "legacy:%d" % int(legacy)],
                  sample={"kernel": "\n".join(xs.render_kernel(k)), "call": c["expr"], "expected": repr(want),
                          "got": diffmod.json_short(g)})
        if not _match(want, g):
            gk = g[0] if g[0] != "ok" else (g[1][1][0][1] if g[1][0] == "tuple" else "?")
            part.violation("%s;%s%s%s;ctx=%s;%s;legacy=%d;got=%s" % (
                               k["type"], k["spec"], "-nogil" if k["nogil"] else "", "-cpdef" if k["cpdef"] else "", ctx,
                               behaviour, int(legacy), gk),
                           {"legacy": legacy, "seed": seed, "kernel": k, "ctx": ctx, "sel": sel},
                           "%s with `%s %s(int sel) %s` (%s): expected %r, got %s" % (
                               c["expr"], xs.TYPES[k["type"]]["ctype"], k["id"], k["clause"], behaviour, want,
                               diffmod.json_short(g, 400)))
    part.count("modules")
    part.count("kernels", len(ks))
    return part


def _cpp_match(want, got):
    """got = canon of unr(): ("ok", r, UNR) or ("raised", type, args, UNR)"""
    if got[0] != "ok":
        return False
    try:
        items = got[1][1]
        tag = eval(items[0][1])
        if want[0] == "ok":
            return tag == "ok" and items[1] == runner_main.canon(want[1]) and items[2] == ["list", []]
        if tag != "raised" or eval(items[1][1]) != want[1] or items[3] != ["list", []]:
            return False
        if want[2] is None:
            return True
        args = items[2][1]
        return len(args) >= 1 and args[0][0] == "str" and eval(args[0][1]) == want[2]
    except Exception:
        return False


def _cpp_cell(arg):
    tree.activate_view()
    part = harness.Part()
    name = "c32cpp"
    so = cybuild.build(xs.cpp_source(), name, os.path.join(tree.workdir(), "c32", name), ext=".pyx", cplus=True)
    cases = xs.cpp_cases()
    imp, got = runner.run_cases("so", so, name, [{"expr": c["expr"]} for c in cases], setup=xs.SETUP)
    if imp[0] != "ok":
        part.violation("import;cpp", {"cpp": True, "expr": None}, "C++ module import failed: %s" % (imp,))
        return part
    for c, g in zip(cases, got):
        part.case(["cpp", c["expr"]], c["sel"] not in (0, 20),
                  ["type:c++", "spec:except+" + {"cp_val": "ValueError", "cp_mem": "MemoryError", "cp_h": "handler",
                                                  "cp_hn": "handler-noraise"}.get(c["fn"], ""), "ctx:" + c["fn"],
                   "behaviour:" + ("normal" if c["sel"] in (0, 20) else "throw")],
                  sample={"call": c["expr"], "throws": c.get("throws"), "expected": repr(c["want"]), "got": diffmod.json_short(g)})
        if not _cpp_match(c["want"], g):
            part.violation("cpp;%s;%s;want=%s" % (c["fn"], c.get("throws", "return").split("(")[0], c["want"][1]),
                           {"cpp": True, "expr": c["expr"]},
                           "%s (C++ `%s`): expected %r, got %s" % (c["expr"], c.get("throws", "return"), c["want"],
                                                                  diffmod.json_short(g, 300)))
    part.count("modules")
    return part


def _dispatch(arg):
    return _cpp_cell(arg) if arg[0] == "cpp" else _cell(arg)


def run(ctx):
    ctx.pmap(_dispatch, [("cpp",), (ctx.seed, False), (ctx.seed, True)])
    ctx.exhaustive = True
    ctx.extra["enumerated_subspace"] = ("all kernels of vlib/gen/excspec.kernels() x contexts x selectors, under default directives "
                                        "and legacy_implicit_noexcept=True, plus the C++ `except +` translation table module")
    ctx.rule = ("full enumeration: return type (10) x specification (implicit / except V / except? V per sentinel / except * / "
                "noexcept / nogil and cpdef variants) x selector (normal, sentinel candidate 1, raise, sentinel candidate 2) x "
                "caller context (A def, B via cdef propagator, D function pointer, E operand, F discarded, C with-nogil, P cpdef "
                "from Python) x {default, legacy_implicit_noexcept}; exception type/args rotate with the seed; oracle = rule table. "
                "non-trivial = the body raised or returned a sentinel candidate; distinct by full cell")
    ctx.assumptions = ["rule table transcribed from docs/src/userguide/language_basics.rst (Error return values)",
                       "`except V` functions never return V without an exception set (documented caller's bug, excluded)"]


def replay(ctx, case):
    tree.activate_view()
    part = harness.Part()
    if case.get("cpp"):
        p = _cpp_cell(("cpp",))
        hits = [v for v in p.violations if case.get("expr") in (None, v[1].get("expr"))]
        return bool(hits), (hits[0][2] if hits else "matches the documented translation table")
    legacy, seed = case["legacy"], case["seed"]
    exc = EXCS[(seed + (1 if legacy else 0)) % len(EXCS)]
    xs.set_exc(*exc)
    if case.get("kernel") is None:
        p = _cell((seed, legacy))
        return bool(p.violations), (p.violations[0][2] if p.violations else "builds")
    k, c, sel = case["kernel"], case["ctx"], case["sel"]
    name = "c32r" + harness.khash(case)
    ks, so = _build(part, [k], name, os.path.join(ctx.work, "c32replay"), {"legacy_implicit_noexcept": True} if legacy else None)
    if not ks:
        return False, "kernel rejected by Cython"
    fn = "M.%s" % k["id"] if c == "P" else "M.%s_%s" % (c, k["id"])
    imp, got = runner.run_cases("so", so, name, [{"expr": "unr(%s, %d)" % (fn, sel)}], setup=xs.SETUP)
    want = xs.expected(k, c, sel, legacy)
    if imp[0] == "ok" and _match(want, got[0]):
        return False, "matches the rule table: %r" % (want,)
    return True, "expected %r, got %s" % (want, diffmod.json_short(got[0] if got else imp, 400))
