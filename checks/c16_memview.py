"""C16 - typed memoryview indexing and slicing match numpy basic indexing (DESIGN §4 C16, engine E3).

Two kernel modules (memoryview C code is slow to compile) hold ~450 kernels: every compile-time index shape of up
to two positions for 1- and 2-dim `double` views, Hypothesis samples of longer / 3-dim / `short` shapes, scalar
assignment to slices, .T / copy() / copy_fortran(), and one `return <object>m` kernel per (dtype, ndim) whose
memoryview object is indexed at run time.  vlib/mvdrive.py drives them inside runner subprocesses over generated
array layouts and runtime integers and judges against numpy on the same array.
"""
import ast
import json
import os
import re

from vlib import cybuild, harness, hyp, runner, tree
from vlib import mvdrive
from vlib.gen import mvshapes

PID = "C16"
LEVEL = "exploration"
META = {
    "technique": "typed kernel tables with a numpy oracle: generated compile-time index shapes and runtime index objects on typed memoryviews, driven over generated array layouts and bounds, compared with numpy basic indexing (shape, strides, element addresses, exceptions)",
    "level_text": "Exploration with one exhaustively enumerated sub-space: for 1-dim double views every single-position index form (integer, all 8 slice forms) is evaluated for every start/stop/index in [-2n-1, 2n+1] (+ four huge values) x every step in [-3, 3] (+ two huge) for lengths n = 0..6 and four layouts (contiguous, [::2], [::-1], offset). All index shapes of up to two positions for 1- and 2-dim views are compiled; longer shapes, 3-dim views and int16 views are Hypothesis samples; their runtime integers and the object-path index tuples are seeded pseudo-random draws over the same ranges. Every result is compared with numpy basic indexing on the same array: shape, strides, the address of the first element, all elements, IndexError / ValueError. Sampling outside the 1-dim sub-space; no proof.",
    "level_note": "Trusts numpy basic indexing as the reference and its buffer import (np.asarray of the returned memoryview object) for reading elements; strides are compared for dimensions of extent > 1 of non-empty results only (numpy's buffer export rewrites the strides of extent-1 dimensions and of zero-size arrays). Index values stay within Py_ssize_t. Kernels run in isolated runner subprocesses.",
}

MODEL = os.path.abspath(mvdrive.__file__)
LINE_RE = re.compile(r"\.pyx:(\d+):\d+:")


# ------------------------------------------------------------------------------------------------ build
def _line_map(descs):
    """line number (1-based) of the source -> descriptor index."""
    out = {}
    line = mvshapes.HEADER.count("\n") + 1
    for i, d in enumerate(descs):
        n = mvshapes.kernel_text(d).count("\n") + 1      # + the joining newline
        for l in range(line, line + n):
            out[l] = i
        line += n
    return out


def _build(arg):
    name, descs, work = arg
    tree.activate_view()
    descs = list(descs)
    rejected = []
    for attempt in range(4):
        src = mvshapes.module_source(descs)
        try:
            so = cybuild.build(src, name, os.path.join(work, "c16", name + "_%d" % attempt), ext=".pyx")
            return {"name": name, "so": so, "descs": descs, "rejected": rejected}
        except cybuild.CythonError as e:
            lm = _line_map(descs)
            hit = {}
            for msg in e.errors:
                m = LINE_RE.search(msg)
                if m and int(m.group(1)) in lm:
                    hit.setdefault(lm[int(m.group(1))], msg.strip())
            if not hit:
                raise
            for i, msg in hit.items():
                rejected.append((descs[i], "crash" if e.crashed else "error", msg[-300:]))
            descs = [d for i, d in enumerate(descs) if i not in hit]
    raise RuntimeError("C16 module %s: too many rejected kernels" % name)


# ------------------------------------------------------------------------------------------------ plan
def make_jobs(name, descs, seed, quick):
    pool = {D: mvshapes.layouts(D, 24 if quick else 96, seed, "pool") for D in (1, 2, 3)}
    jobs = []
    for i, d in enumerate(descs):
        D = d["D"]
        s = hyp.derive(seed, "c16", name, d["k"])
        base = {"desc": d, "seed": s, "maxbad": 10, "maxnt": 8}
        if d["kind"] == "ct" and D == 1 and d["ctype"] == "double" and len(d["forms"]) == 1:
            jobs.append(dict(base, mode="exh", layouts=mvshapes.layouts_1d_exhaustive(),
                             cost=_exh_cost(d["forms"][0])))
            continue
        P = pool[D]
        if d["kind"] in ("ct", "setsl"):
            nl, n = (6, 40) if quick else (24, 250)
            ls = [P[(i * 5 + j * 7) % len(P)] for j in range(nl)]
            jobs.append(dict(base, mode="rand", layouts=ls, n=n, cost=nl * n))
        elif d["kind"] == "obj":
            n = 150 if quick else 2500
            jobs.append(dict(base, mode="rand", layouts=P, n=n, cost=int(len(P) * n * 1.6)))
        else:
            jobs.append(dict(base, mode="rand", layouts=P, n=1, cost=len(P)))
    return jobs


def _exh_cost(form):
    k = 1 if form == "i" else form.count("1")
    return {0: 30, 1: 600, 2: 14000, 3: 110000}[k]


def make_batches(jobs, nb):
    """Greedy cost balancing into nb batches (deterministic)."""
    order = sorted(range(len(jobs)), key=lambda i: (-jobs[i]["cost"], i))
    bins = [[0, []] for _ in range(nb)]
    for i in order:
        b = min(bins, key=lambda x: x[0])
        b[0] += jobs[i]["cost"]
        b[1].append(jobs[i])
    return [b[1] for b in bins if b[1]]


# ------------------------------------------------------------------------------------------------ drive
def _wire(job):
    return {k: v for k, v in job.items() if k != "cost"}


def run_jobs(so, name, jobs, case_timeout=600):
    """-> list of summaries | ("crash", sig, tail) | ("timeout",) | ("error", text), one per job (same for all on failure)."""
    expr = "mvdrive.run(M, %r)" % json.dumps([_wire(j) for j in jobs])
    imp, outs = runner.run_cases("so", so, name, [{"expr": expr}], support=(runner.VSUPPORT, MODEL),
                                 case_timeout=case_timeout, timeout=case_timeout + 60)
    if imp[0] != "ok":
        raise RuntimeError("C16 module %s failed to import: %r" % (name, imp))
    o = outs[0]
    if o[0] == "ok" and o[1][0] == "str":
        return json.loads(ast.literal_eval(o[1][1]))
    if o[0] == "crash":
        return [("crash", o[1], (o[2] if len(o) > 2 else "")[-300:])] * len(jobs)
    if o[0] == "timeout":
        return [("timeout",)] * len(jobs)
    return [("error", json.dumps(o)[:1500])] * len(jobs)


def replay_case(case):
    """Normalise a driver case into a self-contained replay dict (kernel renamed to 'k')."""
    d = dict(case["desc"], k="k")
    out = dict(case, desc=d, src=mvshapes.single_source(d))
    return out


def record(part, job, res):
    d = job["desc"]
    if isinstance(res, (tuple, list)) and res and res[0] in ("crash", "timeout", "error"):
        if res[0] == "crash":
            part.evaluations += 1
            part.count("crashes")
            part.violation("crash:%s|%s|shape=%s" % (res[1], d["kind"], ",".join(d["forms"])),
                           {"kind": "batch", "desc": dict(d, k="k"), "src": mvshapes.single_source(dict(d, k="k")),
                            "job": dict(_wire(job), desc=dict(d, k="k"))},
                           "kernel %s (%s %d-dim, shape %s) killed the process with %s %s" % (
                               d["kind"], d["ctype"], d["D"], ",".join(d["forms"]), res[1], res[2]))
        elif res[0] == "timeout":
            part.count("timeouts")
        else:
            raise RuntimeError("C16 driver error for %s: %s" % (d, res[1]))
        return
    n = res["n"]
    part.evaluations += n
    part.counters["nt_exact"] += res["nt"]
    for cl, c in res["cls"].items():
        part.classes[cl] += c
    for key in res["ntkeys"]:
        part.evaluations -= 1
        sample = {"kernel": mvshapes.kernel_text(d).strip(), "input": key}
        part.case(key, True, None, sample=sample)
    for bucket, case, what in res["bad"]:
        cnt = res["badcount"].get(bucket, 1)
        part.violation(bucket, replay_case(case), "%s (%d inputs of this kernel batch in this bucket)" % (what, cnt))
    part.counters["mismatching_inputs"] += res["nbad"]


def _drive(arg):
    so, name, jobs = arg
    tree.activate_view()
    part = harness.Part()
    results = run_jobs(so, name, jobs)
    if any(isinstance(r, (tuple, list)) and r and r[0] in ("crash", "timeout") for r in results):
        results = [run_jobs(so, name, [j])[0] for j in jobs]          # isolate the failing kernel
    for j, r in zip(jobs, results):
        record(part, j, r)
    return part


def run(ctx):
    mods, excluded = mvshapes.build_modules(ctx.seed, ctx.quick)
    built = ctx.pmap(_build, [(name, descs, ctx.work) for name, descs in mods])
    tasks = []
    nk = 0
    for b in built:
        for d, how, msg in b["rejected"]:
            ctx.violation("compile:%s|%s|shape=%s" % (how, d["kind"], ",".join(d["forms"])),
                          {"kind": "compile", "desc": dict(d, k="k"), "src": mvshapes.single_source(dict(d, k="k"))},
                          "index shape m[%s] on a %d-dim %s view is rejected by the compiler: %s" % (
                              mvshapes.index_text(d["forms"]), d["D"], d["ctype"], msg))
        nk += len(b["descs"])
        jobs = make_jobs(b["name"], b["descs"], ctx.seed, ctx.quick)
        for batch in make_batches(jobs, 10 if ctx.quick else 32):
            tasks.append((b["so"], b["name"], batch))
    tasks.sort(key=lambda t: -sum(j["cost"] for j in t[2]))
    ctx.pmap(_drive, tasks)
    ctx.counters["kernels"] = nk
    ctx.counters["shapes_excluded_known_finding"] = excluded
    ctx.extra["distinct_nontrivial_exact"] = int(ctx.counters.get("nt_exact", 0))
    ctx.extra["exhaustive_subspace"] = ("1-dim double views, single-position index forms (int + 8 slice forms): all bounds in "
                                        "[-2n-1, 2n+1] + 4 huge values x all steps in [-3, 3] + 2 huge, n = 0..6, 4 layouts")
    ctx.rule = ("kernels: `return m[<shape>]` for every index shape of <= 2 positions over {int, 8 slice forms, ..., None} on 1- and "
                "2-dim double views, Hypothesis samples of 3-4 position shapes, 3-dim and int16 views; `m[<shape>] = v`; m.T, m.copy(), "
                "m.copy_fortran(); `<object>m` indexed at run time with generated tuples (ints, slices, Ellipsis, None, too many "
                "indices, non-index types, chained a second time). inputs: Hypothesis array layouts (dimension lengths 0..6; C, F, "
                "transposed, [::2], [::-1], [::-2], offset views) x bounds in [-2n-1, 2n+1] + {+-2^62, 2^63-1, -2^63} x steps in [-3, 3] + "
                "{+-2^40} (seeded PRNG inside the runner; exhaustive for the 1-dim single-position shapes). oracle: numpy basic "
                "indexing on the same array: shape, strides (extent > 1), address of the first element, elements, "
                "IndexError / ValueError; for assignments the whole underlying buffer. non-trivial = some bound negative, out of "
                "range or omitted, a step not in {None, 1}, or a non-contiguous source; distinct by (kernel, layout, integers). "
                "distinct_nontrivial is a bounded hashed SAMPLE (<= 8 per kernel batch); the exact number of non-trivial "
                "evaluations is coverage.distinct_nontrivial_exact")
    ctx.assumptions = ["numpy basic indexing is the reference for shape / strides / elements; Python's memoryview (TypeError) is accepted as "
                       "the alternative reference for None in the object path",
                       "strides are compared for dimensions of extent > 1 of non-empty results (numpy's buffer export rewrites the others)",
                       "copy() / copy_fortran() are exercised on non-empty views only (cython.view.array rejects zero extents; copy is not part of the statement)",
                       "index values fit Py_ssize_t; |step| <= 2^40 (stride * step must not overflow)",
                       "at most one Ellipsis per index (numpy rejects more)",
                       "zero-dim slices m[i, j, ...] are excluded from the kernel modules (compiler crash, recorded finding) and covered by the committed replay"]


# ------------------------------------------------------------------------------------------------ replay
_cache = {}


def _build_src(arg):
    src, work = arg
    tree.activate_view()
    key = cybuild.sha12(src)
    name = "c16r_" + key
    return key, cybuild.build(src, name, os.path.join(work, "c16replay", key), ext=".pyx"), name


def _build_single(ctx, src):
    """One-kernel replay module, cached by source text.  On first use all committed C16 replays are built in
    parallel (a memoryview module costs >= 10 s of gcc; the harness replays them one after the other)."""
    key = cybuild.sha12(src)
    if key not in _cache:
        srcs = {src}
        if not _cache:
            for _, rep in harness.committed_replays(PID):
                c = rep.get("case", {})
                if c.get("kind") in ("one", "batch") and "src" in c:
                    srcs.add(c["src"])
        for k, so, name in ctx.pmap(_build_src, [(t, ctx.work) for t in sorted(srcs)]):
            _cache[k] = (so, name)
    return _cache[key]


def replay(ctx, case):
    tree.activate_view()
    if case["kind"] == "compile":
        outdir = os.path.join(ctx.work, "c16replay", "cc" + cybuild.sha12(case["src"]))
        os.makedirs(outdir, exist_ok=True)
        path = os.path.join(outdir, "c16c.pyx")
        with open(path, "w") as f:
            f.write(case["src"])
        try:
            cybuild.cython_compile(path)
        except cybuild.CythonError as e:
            msg = [m for m in e.errors if LINE_RE.search(m)]
            return True, "compiler %s on `%s`: %s" % ("crashes" if e.crashed else "reports an error",
                                                       case["src"].strip().splitlines()[-1].strip(), (msg or ["?"])[0].split("/")[-1][-200:])
        return False, "compiles"
    so, name = _build_single(ctx, case["src"])
    if case["kind"] == "batch":
        job = case["job"]
    else:
        job = {"desc": case["desc"], "mode": "single", "single": case, "layouts": [case["layout"]]}
    res = run_jobs(so, name, [job])[0]
    if isinstance(res, (tuple, list)) and res and res[0] in ("crash", "timeout", "error"):
        if res[0] == "crash":
            return True, "killed the process with %s" % res[1]
        return False, "inconclusive: %r" % (res,)
    if res["bad"]:
        return True, res["bad"][0][2]
    return False, "agrees with numpy (n=%d)" % res["n"]
