"""C23 - generators / coroutines / async generators follow CPython's protocol on every history (DESIGN §4 C23)."""
import json
import os

from vlib import diffmod, e2util, harness, tree
from vlib.gen import genprog

PID = "C23"
LEVEL = "exploration"
META = {
    "technique": "property-based differential testing: generated generator/coroutine/async-generator bodies x generated operation histories (next/send/throw/close/asend/athrow/aclose, re-entrant resume, abandon + gc) driven inside the runner; per-step events and body LOG compared with the CPython object built from the same source",
    "level_text": "Exploration: Hypothesis-seeded generator of bodies (yield / yield from to compiled and pure-Python sub-generators, plain iterators, lists, ranges, generator expressions / await of suspending awaitables and sub-coroutines / async for / async with; inside for/while loops and try/except (EA, EB, GeneratorExit, StopIteration, Exception, BaseException)/finally incl. yield in except and finally; return values; raise; raise StopIteration (PEP 479); catching GeneratorExit and yielding again) and ~40 histories of length <= 8 per body over next, send(v), throw(class | instance of 6 exception types incl. GeneratorExit/StopIteration), close, asend/anext/athrow/aclose stepped by a manual event-loop stub, throwing into a pending asend, abandoning a started step, re-entrant resume from inside the body, and finally dropping the object + gc.collect(). After every step the event (yielded value / StopIteration value / exception type + user args) and the LOG entries appended by the body (finally blocks, received values) are compared with CPython running the identical source. Sampling, no proof.",
    "level_note": "Trusts CPython 3.12 as reference; messages of interpreter-raised exceptions are not compared; gi_frame/gi_code/cr_* introspection attributes are not observed; compiled code runs in isolated runner subprocesses.",
}
K = 20
NHIST = 36


def case_of(it, exprs):
    return {"header": genprog.HEADER, "setup": genprog.SETUP, "src": it["src"], "exprs": list(exprs),
            "kind": it.get("meta", {}).get("kind", "?")}


def _steps(o):
    """outcome -> list of canon'd (event, newlog) pairs or None"""
    try:
        if o[0] == "ok" and o[1][0] == "list":
            return o[1][1]
    except (IndexError, TypeError):
        pass
    return None


def _evkind(ev):
    """canon'd event tuple -> short description: op, kind[, exception type]"""
    try:
        parts = ev[1]
        op = parts[0][1].strip("'")
        if op == "final":
            return "final", "final"
        second = parts[1]
        if second[0] == "str":
            k = second[1].strip("'")
            if k == "exc":
                k += ":" + parts[2][1].strip("'")
            return op, k
        if second[0] == "tuple":      # agen: (op, driven-result)
            k = second[1][0][1].strip("'")
            if k == "exc":
                k += ":" + second[1][1][1].strip("'")
            return op, k
    except (IndexError, TypeError, AttributeError):
        pass
    return "?", "?"


def _ops_of(expr):
    import ast
    try:
        call = ast.parse(expr, mode="eval").body
        return ast.literal_eval(call.args[2])
    except (SyntaxError, ValueError, IndexError, AttributeError):
        return []


def _opname(op):
    """operation label incl. the thrown exception type: throw[StopIteration], athrow[EA], asend-throw[KeyError]"""
    if not op:
        return "?"
    if op[0] in ("throw", "athrow"):
        return "%s[%s%s]" % (op[0], op[1][0], "" if len(op[1]) > 1 else ":class")
    if op[0] == "asend-throw":
        return "%s[%s]" % (op[0], op[2][0])
    return op[0]


def bucket_of(kind, cls, r, g, expr=""):
    """<kind>|<operation>@<state of the object before the step>|<CPython event>><compiled event>
    state: fresh (never started), fresh* (a send of a non-None value to the unstarted object failed before),
    suspended, finished"""
    ck = cls.split(":")[0]
    if ck.startswith("crash") or ck in ("timeout", "notrun"):
        return "%s|%s" % (kind, cls)
    rs, gs = _steps(r), _steps(g)
    if rs is None or gs is None:
        return "%s|driver:%s" % (kind, cls)
    ops = _ops_of(expr)
    state = "fresh"
    for i, (a, b) in enumerate(zip(rs, gs)):
        ra, ga = a[1][0], b[1][0]
        op, rk = _evkind(ra)
        opn = _opname(ops[i]) if i < len(ops) else op
        if a != b:
            _, gk = _evkind(ga)
            if ra == ga:
                return "%s|%s@%s|%s|bodylog" % (kind, opn, state, rk)
            if rk == gk:
                return "%s|%s@%s|%s|value" % (kind, opn, state, rk)
            return "%s|%s@%s|%s>%s" % (kind, opn, state, rk, gk)
        if rk in ("yield", "result", "first"):
            state = "suspended"
        elif rk == "exc:TypeError" and state in ("fresh", "fresh*") and op in ("send", "asend", "asend-throw", "abandon-step"):
            state = "fresh*"
        elif op in ("close", "aclose") and rk == "exc:RuntimeError":
            pass            # the body ignored GeneratorExit by yielding: the object is still alive
        elif rk.startswith("stop") or rk.startswith("exc") or op == "close":
            state = "finished"
    if len(rs) != len(gs):
        return "%s|length" % kind
    return "%s|final|bodylog" % kind


def _shard(arg):
    seed, shard, nmods = arg
    tree.activate_view()
    part = harness.Part()
    outdir = os.path.join(tree.workdir(), "c23", "s%d" % shard)

    def on_item(it, refs, gots):
        meta = it["meta"]
        for c, r, g in zip(it["cases"], refs, gots):
            rs = _steps(r) or []
            hit_finished = False
            st = "fresh"
            for a in rs[:-1]:
                op, rk = _evkind(a[1][0])
                if st == "finished":
                    hit_finished = True
                if rk.startswith("stop") or (rk.startswith("exc") and rk != "exc:TypeError"):
                    st = "finished"
            nt = bool(c.get("nt")) or hit_finished or "reenter" in json.dumps(r)[:20000]
            part.case([it["src"], c["expr"]], nt, ["kind:" + meta["kind"]] + ["feat:" + f for f in meta["features"]],
                      sample={"src": it["src"], "call": c["expr"], "cpython": diffmod.json_short(r, 500), "compiled": diffmod.json_short(g, 500)})
            if r[0] == "timeout" or g[0] == "timeout":
                part.count("timeouts")
            cls = diffmod.compare(r, g, "full")
            if cls is not None:
                b = bucket_of(meta["kind"], cls, r, g, c["expr"])
                part.violation(b, case_of(it, [c["expr"]]),
                               "%s: %s: CPython %s vs compiled %s" % (c["expr"], cls, diffmod.json_short(r, 900), diffmod.json_short(g, 900)))

    for m in range(nmods):
        items = genprog.draw_items(K, seed, ("c23", shard, m), "%d_%d" % (shard, m), nhist=NHIST)
        e2util.process(part, items, "c23m_%d_%d" % (shard, m), outdir, genprog.HEADER, on_item, case_of,
                       setup=genprog.SETUP, always_log=False)
    return part


def _run_case(case, outdir, name="c23r"):
    items = [{"src": case["src"], "cases": [{"expr": e} for e in case["exprs"]]}]
    return diffmod.run_batch(items, name, outdir, header=case["header"], setup=case.get("setup"))


def _reduce_one(job):
    bucket, case, work = job
    tree.activate_view()
    from vlib import cybuild

    def pred(text):
        try:
            res = _run_case(dict(case, src=text), os.path.join(work, "c23red", cybuild.sha12(bucket)), "red")
        except Exception:
            return False
        if res.status != "ok":
            return False
        for r, g in zip(res.ref[0], res.got[0]):
            cls = diffmod.compare(r, g, "full")
            if cls is not None and bucket_of(case.get("kind", "?"), cls, r, g, case["exprs"][0]) == bucket:
                return True
        return False
    return bucket, e2util.reduce_ast(case["src"], pred, budget=10)


def run(ctx):
    nmods = 1 if ctx.quick else 16
    ctx.pmap(_shard, [(ctx.seed, s, nmods) for s in range(16)])
    findings = harness.load_findings()
    firsts = {}
    for bucket, case, what in ctx.violations:
        if "|" in bucket and bucket not in firsts and len(firsts) < 3 \
                and harness.match_finding(PID, bucket, case, findings) is None:
            firsts[bucket] = case
    jobs = [(b, c, ctx.work) for b, c in firsts.items()]
    smalls = dict(ctx.pmap(_reduce_one, jobs)) if jobs else {}
    out, done = [], set()
    for bucket, case, what in ctx.violations:
        if bucket in smalls and bucket not in done:
            done.add(bucket)
            case = dict(case, src=smalls[bucket])
        out.append((bucket, case, what))
    ctx.violations = out
    ctx.rule = ("Hypothesis-seeded bodies (gen 50% / coroutine 17% / async generator 33%; <= ~14 statements, nesting <= 2) x ~36 distinct histories "
                "of 1-8 operations each, 20 bodies per module; the driver (CPython in both runners) applies the history to the object built from "
                "the body and records per step the event and the LOG entries appended by the body, then drops the object and collects; oracle = "
                "same source under CPython. non-trivial = history contains throw/close/send of a non-None value, or operates on a finished object, "
                "or re-enters the running object; distinct by (body, history)")
    ctx.assumptions = ["CPython 3.12 is the reference", "messages of interpreter-raised exceptions are not compared",
                       "frame/code introspection attributes of generator objects are not observed"]


def replay(ctx, case):
    res = _run_case(case, os.path.join(ctx.work, "c23replay"))
    if res.status != "ok":
        return True, "build status %s: %s" % (res.status, str(res.detail)[:300])
    for e, r, g in zip(case["exprs"], res.ref[0], res.got[0]):
        c = diffmod.compare(r, g, "full")
        if c is not None:
            return True, "%s: %s: CPython %s vs compiled %s" % (e, bucket_of(case.get("kind", "?"), c, r, g, e),
                                                               diffmod.json_short(r, 700), diffmod.json_short(g, 700))
    return False, "outcomes agree"
