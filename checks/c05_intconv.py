"""C05 - Python int <-> C integer conversion is exact or raises (DESIGN §4 C05, engines E3 + E4).

One .pyx module with round-trip kernels for 17 C integer types x 4 conversion sites (typed argument, typed local
assignment, <T> cast, return value of a cdef function), compiled once by Cython (C and C++) and by gcc under a
configuration matrix (PyLong internals on/off, safe macros off, Limited API, C++).  Every kernel is driven over the
same per-type value list (type bounds +-2, PyLong digit-count boundaries, random big ints, bools, int subclasses,
__index__ / __int__ objects, floats, Decimal, Fraction, non-numerics) and judged by vlib/cintmodel.py "conv".
"""
import os

from hypothesis import strategies as st

from vlib import cintmodel as cm
from vlib import cybuild, harness, hyp, ktable, runner, tree

PID = "C05"
LEVEL = "exploration"
META = {
    "technique": "typed kernel tables x configuration matrix: Python-object -> C integer -> Python round-trip kernels for 17 C integer types at 4 conversion sites, driven with digit-boundary / type-bound / random big ints and int-like, __int__-only and non-numeric objects under 5 build configurations",
    "level_text": "Exploration: for every C integer type (char .. unsigned long long, Py_ssize_t, size_t, Py_hash_t, signed and unsigned C enums, a cpdef enum) and every conversion site, all values within 2 of the type bounds, within 1 of every 15/30-bit PyLong digit boundary up to 2^150, +-2^k+-1, seeded random integers up to 2^200, plus bools, int subclasses, __index__-only / __int__-only / both objects (fitting, overflowing, raising, returning non-ints), floats incl. nan/inf, Decimal, Fraction, None, str, bytes, list, object are converted; the same C file is compiled with CYTHON_USE_PYLONG_INTERNALS=0, CYTHON_ASSUME_SAFE_MACROS=0, the Limited API, and as C++. Oracle classes i/ii/iii of the design: exact value or OverflowError for integer-like objects, TypeError for non-numerics, TypeError-or-int(x) semantics for __int__-only numerics. Sampling; no proof for the 2^64 value space.",
    "level_note": "Trusts CPython int()/operator.index as the reference for what an object's integer value is, LP64 gcc as C implementation; exception types only (the statement names types); bint excluded (different contract).",
}

INT_TYPES = ["char", "signed char", "unsigned char", "short", "unsigned short", "int", "unsigned int", "long",
             "unsigned long", "long long", "unsigned long long", "Py_ssize_t", "size_t", "Py_hash_t"]
ENUMS = [("CE", "cdef enum CE:\n    CE_A = -3\n    CE_B = 0\n    CE_C = 2147483647\n"),
         ("UE", "cdef enum UE:\n    UE_A = 0\n    UE_B = 7\n"),
         ("PE", "cpdef enum PE:\n    PE_A = -1\n    PE_B = 5\n")]
FORMS = ["arg", "local", "cast", "cdefret"]
HEADER = "# cython: language_level=3\ncimport cython\n"

CONFIGS = [
    ("default", False, []),
    ("pylong_internals=0", False, ["CYTHON_USE_PYLONG_INTERNALS=0"]),
    ("safe_macros=0", False, ["CYTHON_ASSUME_SAFE_MACROS=0"]),
    ("limited_api", False, ["CYTHON_LIMITED_API=1", "Py_LIMITED_API=0x030c0000"]),
    ("c++", True, []),
]


def kernel_text(T, form, k):
    if form == "arg":
        return "def %s(%s x):\n    return x\n" % (k, T)
    if form == "local":
        return "def %s(x):\n    cdef %s v = x\n    return v\n" % (k, T)
    if form == "cast":
        return "def %s(x):\n    return <%s>x\n" % (k, T)
    if form == "cdefret":
        return "cdef %s c_%s(object o) except *:\n    return o\ndef %s(x):\n    return c_%s(x)\n" % (T, k, k, k)
    raise ValueError(form)


def enum_decl(T):
    for n, d in ENUMS:
        if n == T:
            return d
    return ""


def module_source():
    ks = []
    out = [HEADER] + [d for _, d in ENUMS]
    for T in INT_TYPES + [n for n, _ in ENUMS]:
        for form in FORMS:
            k = "k%d" % len(ks)
            text = kernel_text(T, form, k)
            ks.append(dict(k=k, T=T, form=form, text=text, src=HEADER + enum_decl(T) + text))
            out.append(text)
    allT = INT_TYPES + [n for n, _ in ENUMS]
    # sign probe: enums go through long long (in C++ two enum operands promote to int, which hides an unsigned
    # underlying type); plain integer types compare directly (unsigned long long would not survive the cast)
    enames = [n for n, _ in ENUMS]
    out.append("def SIZEOFS():\n    return {%s}\n" % ", ".join(
        ("%r: (sizeof(%s), (<long long>(<%s>-1)) < 0)" if t in enames else "%r: (sizeof(%s), (<%s>-1) < 0)") % (t, t, t)
        for t in allT))
    return "".join(out), ks


def enc_int(n):
    return ["int", n]


def values_for(lo, hi, seed, quick, T):
    """Encoded value list for a type with range [lo, hi] (deterministic in seed)."""
    ints = set()
    for b in (lo, hi):
        for d in range(-2, 3):
            ints.add(b + d)
    ints.update([0, 1, -1, 2, -2, 255, 256, -255, -256])
    for k in range(1, 11):
        for base in (15 * k, 30 * k if k <= 5 else 15 * k):
            for d in (-1, 0, 1):
                ints.add((1 << base) + d)
                ints.add(-(1 << base) + d)
    for k in (7, 8, 16, 31, 32, 33, 62, 63, 64, 65, 127, 128, 199, 200):
        for d in (-1, 0, 1):
            ints.add((1 << k) + d)
            ints.add(-(1 << k) + d)
    n_h = 120 if quick else 3000
    ints.update(hyp.draw_many(st.integers(-(1 << 200), 1 << 200), n_h + 1, seed, "c05", T)[1:])
    ints.update(hyp.draw_many(st.integers(lo - 3, hi + 3), (60 if quick else 3000) + 1, seed, "c05r", T)[1:])
    import random
    rng = random.Random(hyp.derive(seed, "c05bulk", T))
    for _ in range(300 if quick else 60000):
        ints.add(cm.rand_value(rng, -(1 << 140), 1 << 140))
        ints.add(cm.rand_value(rng, lo, hi))
    vals = [enc_int(n) for n in sorted(ints)]
    wrap = sorted({lo, hi, lo - 1, hi + 1, 0, 1, -1, 5, (1 << 30) - 1, 1 << 30, 1 << 60, 1 << 64, -(1 << 63), (1 << 63) - 1,
                   (1 << 64) - 1, 1 << 100, hi // 2, lo // 2})
    for n in wrap:
        for kind in ("sub", "idx", "both", "io", "io_sub", "idx_sub"):
            vals.append([kind, n])
    vals += [["bool", 0], ["bool", 1], ["io_bool", 1]]
    floats = [0.0, -0.0, 1.5, -1.5, 0.9999, -0.9999, 127.9, 128.0, -128.9, -129.0, 255.5, 256.0, 32767.5, 32768.0, 65535.9,
              2147483647.0, 2147483648.0, -2147483648.0, -2147483649.0, 4294967295.0, 4294967296.0, 9007199254740993.0,
              9223372036854775807.0, 9223372036854774784.0, -9223372036854775808.0, -9223372036854777856.0,
              18446744073709551615.0, 18446744073709549568.0, 1e30, -1e30, 1e308, 5e-324, -5e-324]
    vals += [["float", f.hex()] for f in floats] + [["float", "nan"], ["float", "inf"], ["float", "-inf"]]
    vals += [["dec", "1.5"], ["dec", "-7"], ["dec", "1E+30"], ["dec", "NaN"], ["dec", str(hi)], ["dec", str(hi + 1)],
             ["frac", 7, 2], ["frac", -7, 2], ["frac", hi + 1, 1], ["frac", lo, 1]]
    vals += [["none"], ["str", "12"], ["str", ""], ["bytes", "12"], ["list"], ["obj"],
             ["idx_raise"], ["idx_str"], ["idx_float"], ["io_raise"], ["io_str"], ["io_float"]]
    return vals


def _build(arg):
    cfgname, cplus, defines, work = arg
    tree.activate_view()
    src, ks = module_source()
    name = "c05m"
    outdir = os.path.join(work, "c05", cm.ident(cfgname.replace("=", "_").replace("+", "p")))
    so = cybuild.build(src, name, outdir, ext=".pyx", cplus=cplus, defines=defines)
    imp, outs = runner.run_cases("so", so, name, [{"expr": "M.SIZEOFS()"}])
    if imp[0] != "ok" or outs[0][0] != "ok":
        raise RuntimeError("C05 module (%s) unusable: %r %r" % (cfgname, imp, outs))
    sizes = {kv[0][1].strip("'"): (int(kv[1][1][0][1]), kv[1][1][1][1] == "True") for kv in outs[0][1][1]}
    for t, (sz, sg) in sizes.items():
        if t in cm.CTYPES and (sz * 8, sg) != cm.CTYPES[t]:
            raise RuntimeError("data model mismatch for %s: sizeof=%d signed=%s" % (t, sz, sg))
    return ("built", cfgname, cplus, defines, so, name, sizes)


def _drive(arg):
    cfgname, cplus, defines, so, name, sizes, seed, quick, chunk, nchunks = arg
    tree.activate_view()
    part = harness.Part()
    src, ks = module_source()
    specs = []
    valcache = {}
    for i, d in enumerate(ks):
        if i % nchunks != chunk:
            continue
        T = d["T"]
        sz, sg = sizes[T]
        lo, hi = cm.bounds(sz * 8, sg)
        if T not in valcache:
            valcache[T] = values_for(lo, hi, seed, quick, T)
        # Py_ssize_t / Py_hash_t are documented to convert through __index__ (PyNumber_Index) - same oracle:
        # class iii accepts TypeError.
        params = {"lo": lo, "hi": hi, "intlike": T == "PE"}
        label = "T=%s|site=%s|config=%s" % (T, d["form"], cfgname)
        specs.append({"k": d["k"], "judge": ["conv", params], "enc": "conv",
                      "inputs": {"kind": "list", "items": [[v] for v in valcache[T]]},
                      "label": label, "bucket": "T=%s|site=%s|config=%s" % (T, d["form"], cfgname),
                      "src": d["src"], "build": {"ext": ".pyx", "cplus": cplus, "defines": defines},
                      "ktext": d["text"], "maxnt": 12, "maxbad": 40})
    ktable.run_specs(so, name, specs, part, keyprefix="c05:" + cfgname)
    return part


def run(ctx):
    built = ctx.pmap(_build, [(n, cp, df, ctx.work) for n, cp, df in CONFIGS])
    nchunks = 3
    jobs = []
    for _, cfgname, cplus, defines, so, name, sizes in built:
        for c in range(nchunks):
            jobs.append((cfgname, cplus, defines, so, name, sizes, ctx.seed, ctx.quick, c, nchunks))
    ctx.pmap(_drive, jobs)
    ctx.extra["distinct_nontrivial_exact"] = int(ctx.counters.get("nt_exact", 0))
    ctx.extra["configurations"] = [c[0] for c in CONFIGS]
    ctx.rule = ("round-trip kernels {typed argument, cdef local assignment, <T> cast, cdef-function return} x 17 types "
                "(char..unsigned long long, Py_ssize_t, size_t, Py_hash_t, signed/unsigned cdef enum, cpdef enum) x 5 build "
                "configurations; values per type: bounds +-2, +-2^(15k)+-1 and +-2^(30k)+-1 digit boundaries up to 2^150, +-2^k+-1, "
                "Hypothesis and seeded random ints up to 2^200 and around the type range, bool, int subclass, __index__-only, "
                "__int__-only, both, objects whose hooks raise / return non-ints / return int subclasses, floats (boundary, nan, inf), "
                "Decimal, Fraction, None/str/bytes/list/object. Oracle: (i) int-like -> same int or OverflowError, (ii) non-numeric -> "
                "TypeError, (iii) __int__-only numeric -> TypeError or int(x) semantics. non-trivial = value within 2 of a type bound "
                "or within 1 of a 15-bit-multiple power of two, or a non-int object; distinct by (config, kernel, value); "
                "distinct_nontrivial is a bounded hashed sample, exact count in coverage.distinct_nontrivial_exact")
    ctx.assumptions = ["LP64; sizeof and signedness of every type incl. the enums are read back from the compiled module",
                       "exception types only; DeprecationWarnings from __int__/__index__ returning int subclasses are ignored",
                       "bint excluded (truth-value contract)"]


def replay(ctx, case):
    return ktable.replay(ctx, case)
