"""C46 - cythonize rebuilds exactly the modules whose inputs changed (DESIGN §4 C46).

Part G (graph level, quick + thorough): the REAL DependencyTree.all_dependencies / transitive_merge /
transitive_merge_helper (Cython/Build/Dependencies.py from the source view) run on abstract graphs: a subclass
only replaces the two file-system facing methods (`immediate_dependencies`, `cimported_files`) by a node ->
successors table.  Oracle: reflexive-transitive closure by BFS.
  G1 exhaustive: every digraph on <= 4 nodes (self-loops and cycles included, 2**16 for n = 4) x every order of
     querying all nodes (n!) on ONE shared tree (so `_transitive_cache` carries over) x 2 passes (second pass hits
     the cache); successors listed in ascending node order (the descending order is the same space under the
     relabelling i -> n-1-i, since all labelled graphs and all query orders are enumerated).
  G2 Hypothesis: graphs with 5..12 nodes, arbitrary per-node successor orders, query sequences with repeats.

Part F (file level): see checks/c46_files.py (imported below when present).
"""
import itertools
import os

from hypothesis import strategies as st

from vlib import harness, hyp, tree

PID = "C46"
LEVEL = "exploration"
META = {
    "engine": "vlib",
    "technique": "exhaustive enumeration of all digraphs on <= 4 nodes x all query orders through the real "
                 "DependencyTree.transitive_merge (BFS closure oracle), Hypothesis graphs up to 12 nodes; file-level "
                 "edit/touch histories on real temp trees, each cythonize step in a fresh process state, and an audit-hook "
                 "record of the files the compiler opens",
    "level_text": "Exploration with an exhaustively enumerated core: for every directed graph on <= 4 nodes (cycles and "
                  "self-loops included) and every order of querying all nodes on one shared DependencyTree (so cached "
                  "partial closures carry over), all_dependencies equals the BFS closure (exhaustive: true for that "
                  "space); larger graphs, per-node successor orders and repeated queries are sampled. File-level "
                  "histories (touch/edit/add-remove cimport or include/delete C file/run cythonize in a forked, "
                  "cache-cleared child - every 16th history in a new interpreter -, logical clock via os.utime) compare the rebuilt set with the set predicted from the "
                  "generated dependency closure, and all_dependencies with the files a real compile opens. Sampling "
                  "beyond the enumerated graph space; no proof.",
    "level_note": "Graph part replaces only immediate_dependencies/cimported_files of DependencyTree by a table. File part "
                  "trusts the generator's own dependency closure and os.utime timestamps (whole seconds apart).",
}


# --------------------------------------------------------------------------- graph level

_table_tree_class = []


def make_tree(succ):
    """Real DependencyTree whose file-system facing extractors are replaced by the table `succ`."""
    if not _table_tree_class:
        from Cython.Build.Dependencies import DependencyTree

        class TableTree(DependencyTree):
            def __init__(self, table):
                DependencyTree.__init__(self, context=None, quiet=True)
                self.table = table

            def immediate_dependencies(self, node):      # real one: {file} | cimported_files | included_files
                return {node} | set(self.table[node])

            def cimported_files(self, node):             # real one: tuple of .pxd files, in discovery order
                return tuple(self.table[node])

        _table_tree_class.append(TableTree)
    return _table_tree_class[0](succ)


def closure(succ, start):
    seen = {start}
    todo = [start]
    while todo:
        n = todo.pop()
        for m in succ[n]:
            if m not in seen:
                seen.add(m)
                todo.append(m)
    return seen


def graph_features(succ):
    n = len(succ)
    reach = [closure(succ, i) for i in range(n)]
    cyc = any(i in succ[i] for i in range(n)) or any(
        i != j and j in reach[i] and i in reach[j] for i in range(n) for j in range(n))
    # shared sub-DAG: some node is a successor of two different nodes (its cached closure is reused)
    indeg = [0] * n
    for i in range(n):
        for j in set(succ[i]):
            if j != i:
                indeg[j] += 1
    shared = any(d >= 2 for d in indeg)
    return cyc, shared


def run_queries(succ, queries):
    """-> None or (kind, message, index of the failing query)"""
    t = make_tree(succ)
    for qi, q in enumerate(queries):
        try:
            got = t.all_dependencies(q)
        except Exception as e:
            return "raise:" + type(e).__name__, "all_dependencies(%r) raised %s: %s" % (q, type(e).__name__, e), qi
        want = closure(succ, q)
        got = set(got)
        if got != want:
            missing, extra = sorted(want - got), sorted(got - want)
            kind = "missing" if missing and not extra else "extra" if extra and not missing else "missing+extra"
            when = "first-query" if qi == 0 else "after-cached-queries"
            return ("%s:%s" % (kind, when),
                    "all_dependencies(%r) = %s, reachable set %s (query %d of %r)" % (
                        q, sorted(got), sorted(want), qi, list(queries)), qi)
    return None


def decode_graph(n, code, descending=False):
    succ = []
    for i in range(n):
        row = [j for j in range(n) if code >> (i * n + j) & 1]
        if descending:
            row.reverse()
        succ.append(row)
    return succ


def _graph_shard(arg):
    n, lo, hi, step = arg
    tree.activate_view()
    part = harness.Part()
    orders = list(itertools.permutations(range(n)))
    found = {}
    for code in range(lo, hi, step):
        for desc in (False,):      # descending successor order = ascending order on the node-reversed graph (also enumerated)
            succ = decode_graph(n, code, desc)
            cyc, shared = graph_features(succ)
            for order in orders:
                queries = list(order) + list(order)
                r = run_queries(succ, queries)
                if r is not None:
                    kind, msg, qi = r
                    bucket = "graph:%s:%s" % (kind, "cyclic" if cyc else "acyclic")
                    case = {"kind": "graph", "succ": succ, "queries": queries[:qi + 1]}
                    prev = found.get(bucket)
                    if prev is None or (n, len(case["queries"])) < (len(prev[0]["succ"]), len(prev[0]["queries"])):
                        found[bucket] = (case, msg)
                    part.count("graph_mismatches")
            cl = ["graph:n=%d" % n]
            if cyc:
                cl.append("graph:cyclic")
            if shared:
                cl.append("graph:shared-successor")
            part.case(["g", n, code, desc], cyc or shared, cl, n=len(orders),
                      sample={"kind": "graph", "succ": succ, "orders": len(orders)})
            if len(part.samples) < 2 and (cyc and shared) and code % 977 == 0:
                part.samples.append({"kind": "graph", "succ": succ, "queries": "all %d orders x 2 passes" % len(orders)})
    for bucket, (case, msg) in sorted(found.items()):
        part.violation(bucket, case, msg)
    return part


@st.composite
def big_graphs(draw):
    n = draw(st.integers(5, 12))
    density = draw(st.sampled_from([1, 2, 2, 3]))
    succ = []
    for i in range(n):
        row = draw(st.lists(st.integers(0, n - 1), min_size=0, max_size=density + 1, unique=True))
        succ.append(row)
    # weave in a cycle / back edge more often than random edges would
    if draw(st.booleans()):
        a, b = draw(st.integers(0, n - 1)), draw(st.integers(0, n - 1))
        path = draw(st.lists(st.integers(0, n - 1), min_size=1, max_size=4))
        chain = [a] + path + [b, a]
        for x, y in zip(chain, chain[1:]):
            if y not in succ[x]:
                succ[x].insert(draw(st.integers(0, len(succ[x]))), y)
    queries = draw(st.lists(st.integers(0, n - 1), min_size=1, max_size=2 * n))
    return succ, queries


def _biggraph_shard(arg):
    seed, shard, count = arg
    tree.activate_view()
    part = harness.Part()
    found = {}
    for succ, queries in hyp.draw_many(big_graphs(), count + 1, seed, "c46big", shard)[1:]:
        cyc, shared = graph_features(succ)
        r = run_queries(succ, queries)
        cl = ["graph:n=5-8" if len(succ) <= 8 else "graph:n=9-12"]
        if cyc:
            cl.append("graph:cyclic")
        if shared:
            cl.append("graph:shared-successor")
        part.case(["bg", succ, queries], cyc or shared, cl, sample={"kind": "graph", "succ": succ, "queries": queries})
        if r is not None:
            kind, msg, qi = r
            bucket = "graph:%s:%s" % (kind, "cyclic" if cyc else "acyclic")
            case = {"kind": "graph", "succ": succ, "queries": queries[:qi + 1]}
            prev = found.get(bucket)
            if prev is None or len(succ) < len(prev[0]["succ"]):
                found[bucket] = (case, msg)
    for bucket, (case, msg) in sorted(found.items()):
        case = reduce_graph(case)
        part.violation(bucket, case, run_queries(case["succ"], case["queries"])[1])
    return part


def reduce_graph(case):
    """Greedy: drop queries, drop edges, drop trailing isolated nodes - while some query still disagrees."""
    succ = [list(r) for r in case["succ"]]
    queries = list(case["queries"])

    def bad(s, q):
        return run_queries(s, q) is not None

    progress = True
    while progress:
        progress = False
        for i in range(len(queries) - 1):
            cand = queries[:i] + queries[i + 1:]
            if bad(succ, cand):
                queries, progress = cand, True
                break
        if progress:
            continue
        for i in range(len(succ)):
            for k in range(len(succ[i])):
                cand = [list(r) for r in succ]
                del cand[i][k]
                if bad(cand, queries):
                    succ, progress = cand, True
                    break
            if progress:
                break
    return {"kind": "graph", "succ": succ, "queries": queries}


def run_graph_part(ctx):
    # few, evenly loaded shards (every pmap item is a freshly forked worker): n <= 3 in one item each, n = 4 dealt
    # round-robin (graph code mod 16) because dense graphs cost more than sparse ones
    shards = [(n, 0, 2 ** (n * n), 1) for n in (1, 2, 3)]
    for k in range(16):
        shards.append((4, k, 2 ** 16, 16))
    ctx.pmap(_graph_shard, shards)
    ctx.exhaustive = True
    ctx.extra["exhaustive_space"] = ("every digraph on 1..4 nodes (2**(n*n) adjacency matrices, self-loops and cycles "
                                     "included; successors in node order) x every order of querying all nodes on one "
                                     "shared DependencyTree x 2 passes")
    ctx.extra["exhaustive_graph_order_runs"] = int(ctx.evaluations)
    count = 1500 if ctx.quick else 40000
    ctx.pmap(_biggraph_shard, [(ctx.seed, i, count) for i in range(16)])
    # smallest case per bucket
    best, order = {}, []
    for v in ctx.violations:
        b = v[0]
        if not (isinstance(v[1], dict) and v[1].get("kind") == "graph"):
            order.append(v)
        elif b not in best:
            best[b] = v
            order.append(b)
        elif (len(v[1]["succ"]), len(v[1]["queries"])) < (len(best[b][1]["succ"]), len(best[b][1]["queries"])):
            best[b] = v
    ctx.violations[:] = [best[x] if isinstance(x, str) else x for x in order]


def prime(files=True):
    """Load every module the shards use before forking / drawing (Hypothesis derives constants from the local modules
    in sys.modules, so the module set must be the same in every worker)."""
    tree.activate_view()
    run_queries([[1], [0, 2], []], [0, 2, 1])
    if files:
        try:
            from checks import c46_files
        except ImportError:
            return
        c46_files._children()          # imports Cython.Build + the compiler and compiles a one-line module once


def run(ctx):
    parts = os.environ.get("VERIF_C46_PARTS", "graph,files")       # development aid; both parts by default
    prime("files" in parts)
    if "graph" in parts:
        run_graph_part(ctx)
    rule = ("graph level: (G1) exhaustive - all digraphs on <= 4 nodes x all n! orders of "
            "querying every node twice on one DependencyTree (one evaluation = one (graph, order) run of 2n "
            "all_dependencies calls, each compared with the BFS closure); (G2) Hypothesis graphs with 5-12 nodes, "
            "arbitrary successor orders, woven-in cycles, 1..2n queries with repeats. Non-trivial = the graph has a "
            "cycle (self-loop included) or a node that is a successor of two different nodes; distinct by graph "
            "(G1) / by (graph, queries) (G2)")
    assumptions = ["the graph part replaces DependencyTree.immediate_dependencies and .cimported_files by a table; "
                   "transitive_merge / transitive_merge_helper / all_dependencies are the real code"]
    try:
        from checks import c46_files
    except ImportError:
        c46_files = None
    if c46_files is not None and "files" in parts:
        frule, fassume = c46_files.run(ctx)
        rule += "; " + frule
        assumptions += fassume
    ctx.rule = rule
    ctx.assumptions = assumptions


def replay(ctx, case):
    prime(case.get("kind") != "graph")
    if case.get("kind") == "graph":
        r = run_queries(case["succ"], case["queries"])
        if r is None:
            return False, "all queries agree with the BFS closure"
        return True, "%s: %s" % (r[0], r[1])
    from checks import c46_files
    return c46_files.replay(ctx, case)
