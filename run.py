#!/venv/bin/python
"""./run.py <ID> [--tier quick|thorough] [--seed N] [--replay FILE]"""
import importlib
import os
import sys

HERE = os.path.dirname(os.path.abspath(__file__))
sys.path.insert(0, HERE)
sys.dont_write_bytecode = True


def find(pid):
    pid = pid.upper()
    for n in sorted(os.listdir(os.path.join(HERE, "checks"))):
        if n.lower().startswith(pid.lower() + "_") and n.endswith(".py"):
            return "checks." + n[:-3]
    raise SystemExit("no check for %s" % pid)


if __name__ == "__main__":
    if len(sys.argv) < 2:
        raise SystemExit(__doc__)
    from vlib import harness
    mod = importlib.import_module(find(sys.argv[1]))
    rc = harness.main(mod, sys.argv[2:])
    sys.stdout.flush()
    sys.stderr.flush()
    sys.exit(rc)
