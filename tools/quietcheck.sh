#!/bin/sh
# usage: tools/quietcheck.sh SEED PID...   (runs quick checks with outputs redirected to /tmp/qc; prints verdict lines)
seed=$1; shift
for p in "$@"; do
  VERIF_OUTDIR=/tmp/qc/$seed ./run.py $p --seed $seed > /tmp/qc_$p.$seed.log 2>&1
  rc=$?
  echo "== $p seed=$seed exit=$rc $(grep -c '^VIOLATION' /tmp/qc_$p.$seed.log) violations; $(grep -c '^KNOWN' /tmp/qc_$p.$seed.log) known; $(tail -1 /tmp/qc_$p.$seed.log | cut -c1-160)"
done
