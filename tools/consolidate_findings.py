#!/usr/bin/env python3
"""Merge findings.d/*.json (staging files written by the check builders) into known_findings.json and mark the
entries whose defect has been repaired by a `fix:` commit in /repo as fixed (a fixed entry suppresses nothing)."""
import glob
import json
import os

HERE = os.path.dirname(os.path.dirname(os.path.abspath(__file__)))
FIXED = {
    "C02-floatconst-mod-inf": "01bfab0e3",
    "C03-min-mod-minus1-sigfpe": "d3b0c1d44",
    "C05-index-only-object-typeerror": "3a00400d7",
    "C06-double-mod-zero-sign": "3391e4c70",
    "C06-double-mod-inf-same-sign-nan": "3391e4c70",
    "C06-float-parse-underscore-after-exponent-sign": "afd9a6a37",
    "C06-float-parse-nonascii-str-buffer-off-by-one": "95ed61ce7",
    "C09-signed-zero-merged-in-pooled-tuple-or-slice": "DEDUP",
    "C13-bytes-tailmatch-start-overflow": "1c4454c45",
    "C15-sequence-double-wraparound": "5308316bb",
    "C15-list-tuple-slice-crop-overflow": "512586082",
    "C16-negstep-bound-below-minus-len": "1cf7a8cc9",
    "C16-empty-range-shorter-than-step-has-length-1": "1cf7a8cc9",
    "C17-repeated-struct-format-null-deref": "db79efe81",
    "C19-not-of-cascaded-in-is": "984daf937",
    "C20-minmax-arg-order": "399ffefcd",
    "C22-caught-bare-reraise-segv": "604d20daf",
    "C22-return-in-finally-inside-handler-segv": "36844ab11",
    "C28-pow3-modulus-operand-treated-as-self": "cbceee5bf",
    "C39-avoid-borrowed-refs-dict-nextref-inverted-check": "NEXTREF",
    "C48-directives-not-in-fingerprint": "FPRINT",
    "C48-inline-key-ignores-directives": "INLINEKEY",
    "C36-float-exponent-underscore": "afd9a6a37",
}


def main():
    import subprocess
    log = subprocess.run(["git", "-C", "/repo", "log", "--format=%h %s"], capture_output=True, text=True).stdout
    def find(sub):
        for l in log.splitlines():
            if sub in l:
                return l.split()[0]
        raise SystemExit("no commit for " + sub)
    sym = {"DEDUP": find("differ only in the sign of a float zero"), "NEXTREF": find("__Pyx_PyDict_NextRef"),
           "FPRINT": find("fingerprint ignored the compiler directives"), "INLINEKEY": find("cython.inline() cache key")}
    p = os.path.join(HERE, "known_findings.json")
    doc = json.load(open(p))
    have = {f["key"] for f in doc["findings"]}
    for f in sorted(glob.glob(os.path.join(HERE, "findings.d", "*.json"))):
        for e in json.load(open(f))["findings"]:
            if e["key"] not in have:
                doc["findings"].append(e)
                have.add(e["key"])
    for e in doc["findings"]:
        c = FIXED.get(e["key"])
        if c:
            c = sym.get(c, c)
            if e.get("status") != "fixed" or "fixed: property=" not in e["what"]:
                e["status"] = "fixed"
                e["commit"] = c
                w = e["what"]
                if not w.startswith("fixed: property="):
                    e["what"] = "fixed: property=%s %s %s" % (e["property"], c, w)
    doc["findings"].sort(key=lambda e: (e["property"], e["status"] != "fixed", e["key"]))
    with open(p, "w") as f:
        json.dump(doc, f, indent=1)
        f.write("\n")
    print("known_findings.json: %d entries (%d fixed, %d open)" % (
        len(doc["findings"]), sum(e["status"] == "fixed" for e in doc["findings"]), sum(e["status"] == "open" for e in doc["findings"])))


if __name__ == "__main__":
    main()
