#!/bin/sh
# usage: tools/finalsweep.sh PID...   in-place quick runs (default seed) that rewrite evidence/<PID>.json; prints verdict lines
for p in "$@"; do
  s=$(date +%s)
  ./run.py $p --tier quick > /tmp/final_$p.log 2>&1
  rc=$?
  echo "== $p exit=$rc $(grep -c '^VIOLATION' /tmp/final_$p.log) violations; $(grep -c '^KNOWN' /tmp/final_$p.log) known; $(( $(date +%s) - s ))s; $(tail -1 /tmp/final_$p.log | cut -c1-150)"
done
