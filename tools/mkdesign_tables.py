#!/usr/bin/env python3
"""Regenerate the generated parts of DESIGN.md (§9 findings table, §10 seeded-change table) between markers."""
import json
import os
import re

HERE = os.path.dirname(os.path.dirname(os.path.abspath(__file__)))


def esc(s):
    return s.replace("|", "\\|").replace("\n", " ")


def findings_table():
    doc = json.load(open(os.path.join(HERE, "known_findings.json")))
    fixed = [e for e in doc["findings"] if e["status"] == "fixed"]
    open_ = [e for e in doc["findings"] if e["status"] == "open"]
    out = ["**Repaired in /repo (%d `fix:` entries; each is one unguarded commit, the pinned suite still has 504 passes).**" % len(fixed), "",
           "| property | key | commit | what failed |", "|---|---|---|---|"]
    for e in fixed:
        w = re.sub(r"^fixed: property=\S+ \S+ ", "", e["what"])
        out.append("| %s | %s | %s | %s |" % (e["property"], e["key"], e.get("commit", "")[:12], esc(w)[:420]))
    out += ["", "**Recorded, not repaired (%d open entries in `known_findings.json`; printed as `KNOWN-FINDING`, matched by bucket/case regex so that any other violation of the same property is still reported).**" % len(open_), "",
            "| property | key | what fails |", "|---|---|---|"]
    for e in open_:
        out.append("| %s | %s | %s |" % (e["property"], e["key"], esc(e["what"])[:420]))
    return "\n".join(out)


def seeded_table():
    p = os.path.join(HERE, "seeded", "RESULTS.json")
    res = json.load(open(p)) if os.path.exists(p) else {}
    out = ["| seeded change | property | what was changed (needs ...) | caught by the property's quick check | first violation bucket |", "|---|---|---|---|---|"]
    ids = sorted(d for d in os.listdir(os.path.join(HERE, "seeded")) if os.path.isdir(os.path.join(HERE, "seeded", d)))
    n = c = 0
    for sid in ids:
        meta = json.load(open(os.path.join(HERE, "seeded", sid, "meta.json")))
        r = res.get(sid, {})
        caught = r.get("caught")
        n += 1
        c += bool(caught)
        fv = r.get("first_violation") or r.get("status") or ""
        m = re.search(r"bucket=([^:]+(?::[^:]+){0,3})", fv)
        out.append("| seeded/%s | %s | %s — needs: %s | %s (%s, %ss) | %s |" % (
            sid, meta["property"], esc(meta.get("summary", ""))[:260], esc(str(meta.get("needs", "")))[:200],
            {True: "**yes**", False: "NO", None: "not run"}[caught], r.get("tier", "-"), r.get("wall_s", "-"), esc(m.group(1) if m else fv)[:120]))
    out.append("")
    out.append("Caught: %d of %d." % (c, n))
    return "\n".join(out)


def main():
    p = os.path.join(HERE, "DESIGN.md")
    s = open(p).read()
    for tag, fn in (("FINDINGS", findings_table), ("SEEDED", seeded_table)):
        a, b = "<!-- BEGIN %s -->" % tag, "<!-- END %s -->" % tag
        if a in s:
            i, j = s.index(a) + len(a), s.index(b)
            s = s[:i] + "\n" + fn() + "\n" + s[j:]
    open(p, "w").write(s)


if __name__ == "__main__":
    main()
