#!/venv/bin/python
"""Run checks against a seeded mutant without touching /repo or /verif's outputs.

usage: tools/seedtest.py <dir with patch.diff | patch file> <PID> [<PID>...] [--tier quick|thorough] [--seed N]
Creates /var/tmp/cyscratch.seed.<pid>, copies the tracked Cython sources there, applies the patch, runs
`VERIF_REPO=<scratch> VERIF_OUTDIR=<scratch>/out ./run.py PID`, prints the verdict lines, removes the copy.
"""
import os
import shutil
import subprocess
import sys
import time

HERE = os.path.dirname(os.path.dirname(os.path.abspath(__file__)))


def main():
    args = [a for a in sys.argv[1:] if not a.startswith("--")]
    opts = sys.argv[1:]
    tier = opts[opts.index("--tier") + 1] if "--tier" in opts else "quick"
    seed = opts[opts.index("--seed") + 1] if "--seed" in opts else "1"
    args = [a for a in args if a not in (tier, seed)] if ("--tier" in opts or "--seed" in opts) else args
    patch = args[0]
    if os.path.isdir(patch):
        patch = os.path.join(patch, "patch.diff")
    pids = args[1:]
    scratch = "/var/tmp/cyscratch.seed.%d" % os.getpid()
    os.makedirs(scratch)
    try:
        subprocess.run("git -C /repo archive HEAD Cython cython.py pyximport Tools docs/src/userguide | tar -x -C %s" % scratch,
                       shell=True, check=True)
        p = subprocess.run(["patch", "-p1", "-d", scratch, "-i", os.path.abspath(patch)], capture_output=True, text=True)
        if p.returncode != 0:
            print("PATCH FAILED:", p.stdout[-500:], p.stderr[-300:])
            return 2
        rc_all = 0
        for pid in pids:
            env = dict(os.environ, VERIF_REPO=scratch, VERIF_OUTDIR=os.path.join(scratch, "out"), VERIF_SEED=seed)
            t = time.time()
            r = subprocess.run([os.path.join(HERE, "run.py"), pid, "--tier", tier, "--seed", seed], cwd=HERE, env=env,
                               capture_output=True, text=True)
            lines = [l[:400] for l in r.stdout.splitlines() if l.startswith(("VIOLATION", "KNOWN-FINDING", pid, "HARNESS"))]
            print("== %s vs %s: exit %d in %.0fs" % (pid, os.path.basename(os.path.dirname(os.path.abspath(patch))), r.returncode, time.time() - t))
            for l in lines[-8:]:
                print("   ", l)
            if r.returncode == 2:
                print(r.stdout[-1500:], r.stderr[-1500:])
            rc_all = max(rc_all, r.returncode)
        return rc_all
    finally:
        shutil.rmtree(scratch, ignore_errors=True)


if __name__ == "__main__":
    sys.exit(main())
