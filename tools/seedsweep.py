#!/venv/bin/python
"""Run every seeded mutant against the check of its property (quick tier) and record the outcome in
seeded/RESULTS.json (caught = exit 1 with a VIOLATION line).  usage: tools/seedsweep.py [ID ...] [--tier t]"""
import json
import os
import re
import subprocess
import sys
import time

HERE = os.path.dirname(os.path.dirname(os.path.abspath(__file__)))
RES = os.path.join(HERE, "seeded", "RESULTS.json")


def main():
    ids = [a for a in sys.argv[1:] if not a.startswith("--") and a not in ("quick", "thorough")]
    tier = "thorough" if "thorough" in sys.argv else "quick"
    registered = set(open(os.path.join(HERE, "tools", "registered.txt")).read().split())
    results = json.load(open(RES)) if os.path.exists(RES) else {}
    for sid in sorted(ids or os.listdir(os.path.join(HERE, "seeded"))):
        d = os.path.join(HERE, "seeded", sid)
        if not os.path.isdir(d):
            continue
        meta = json.load(open(os.path.join(d, "meta.json")))
        pid = meta["property"]
        if pid not in registered:
            results.setdefault(sid, {})["status"] = "no registered check for %s" % pid
            continue
        t = time.time()
        r = subprocess.run([os.path.join(HERE, "tools", "seedtest.py"), d, pid, "--tier", tier], capture_output=True, text=True)
        viol = [l.strip()[:300] for l in r.stdout.splitlines() if "VIOLATION" in l]
        m = re.search(r"exit (\d+)", r.stdout)
        rc = int(m.group(1)) if m else -1
        results[sid] = {"property": pid, "check_exit": rc, "caught": rc == 1 and bool(viol), "tier": tier,
                        "first_violation": viol[0] if viol else None, "wall_s": int(time.time() - t),
                        "summary": meta.get("summary", "")[:300]}
        print(sid, results[sid]["caught"], rc, int(time.time() - t), flush=True)
        # several sweeps over disjoint IDs may run at the same time: merge under a lock
        import fcntl
        with open(RES + ".lock", "w") as lk:
            fcntl.flock(lk, fcntl.LOCK_EX)
            cur = json.load(open(RES)) if os.path.exists(RES) else {}
            cur[sid] = results[sid]
            with open(RES + ".tmp", "w") as f:
                json.dump(cur, f, indent=1, sort_keys=True)
            os.replace(RES + ".tmp", RES)


if __name__ == "__main__":
    main()
