#!/venv/bin/python
"""Independently confirm a seeded mutant: demo passes on a clean worktree, fails on the patched one, and the
pinned suite still has 504 passes.  usage: tools/verify_seed.py <src dir with patch.diff demo.py meta.json> <ID>
On success copies patch.diff, demo.py, meta.json (+ what was run) to /verif/seeded/<ID>/."""
import json
import os
import re
import shutil
import subprocess
import sys

src, sid = sys.argv[1], sys.argv[2]
wt = "/tmp/seedverify_%s_%d" % (sid, os.getpid())
res = {}
try:
    subprocess.run(["git", "-C", "/repo", "worktree", "add", "--detach", wt, "HEAD"], check=True, capture_output=True)
    demo = os.path.join(src, "demo.py")
    r = subprocess.run(["/venv/bin/python", demo, wt], capture_output=True, text=True, timeout=1800)
    res["demo_clean"] = r.returncode
    a = subprocess.run(["git", "-C", wt, "apply", os.path.abspath(os.path.join(src, "patch.diff"))], capture_output=True, text=True)
    if a.returncode != 0:
        a = subprocess.run(["patch", "-p1", "-d", wt, "-i", os.path.abspath(os.path.join(src, "patch.diff"))], capture_output=True, text=True)
    res["patch_applies"] = a.returncode == 0
    if res["patch_applies"]:
        # refresh the stored patch against current HEAD (fuzz may have moved it)
        d = subprocess.run(["git", "-C", wt, "diff"], capture_output=True, text=True).stdout
        r = subprocess.run(["/venv/bin/python", demo, wt], capture_output=True, text=True, timeout=1800)
        res["demo_mutant"] = r.returncode
        res["demo_mutant_out"] = (r.stdout + r.stderr)[-600:]
        t = subprocess.run("cd %s && /venv/bin/python -m pytest -q -p no:cacheprovider --timeout=900 --continue-on-collection-errors 2>&1 | tail -1" % wt,
                           shell=True, capture_output=True, text=True, timeout=3600)
        m = re.search(r"(\d+) passed", t.stdout)
        res["tests_passed"] = int(m.group(1)) if m else -1
        res["tests_line"] = t.stdout.strip()[-200:]
        ok = res["demo_clean"] == 0 and res["demo_mutant"] == 1 and res["tests_passed"] == 504
        res["confirmed"] = ok
        if ok:
            out = os.path.join("/verif/seeded", sid)
            os.makedirs(out, exist_ok=True)
            open(os.path.join(out, "patch.diff"), "w").write(d)
            shutil.copy(demo, out)
            meta = json.load(open(os.path.join(src, "meta.json")))
            meta["confirmed_by_owner"] = {k: res[k] for k in ("demo_clean", "demo_mutant", "tests_passed")}
            meta["what_was_run"] = ["git worktree add --detach <wt> HEAD", "python demo.py <wt>  (clean) -> exit 0", "git apply patch.diff",
                                    "python demo.py <wt>  (mutant) -> exit 1", "python -m pytest -q ... in <wt> -> 504 passed"]
            json.dump(meta, open(os.path.join(out, "meta.json"), "w"), indent=1)
finally:
    subprocess.run(["git", "-C", "/repo", "worktree", "remove", "--force", wt], capture_output=True)
    shutil.rmtree(wt, ignore_errors=True)
print(sid, json.dumps(res))
