#!/usr/bin/env python3-vt
"""Validate MANIFEST.json and evidence/*.json against the schemas (needs jsonschema: python3-vt)."""
import glob, json, sys
import jsonschema
man = json.load(open("/verif/MANIFEST.json"))
jsonschema.validate(man, json.load(open("/root/.vp/MANIFEST.schema.json")))
es = json.load(open("/root/.vp/EVIDENCE.schema.json"))
bad = 0
for p in sorted(glob.glob("/verif/evidence/*.json")):
    try:
        jsonschema.validate(json.load(open(p)), es)
    except Exception as e:
        bad += 1
        print("INVALID", p, str(e)[:300])
print("manifest ok; evidence files checked:", len(glob.glob("/verif/evidence/*.json")), "invalid:", bad)
sys.exit(1 if bad else 0)
