#!/venv/bin/python
"""Regenerate /verif/MANIFEST.json from the META tables of checks/*.py and validate it."""
import importlib
import json
import os
import re
import sys

HERE = os.path.dirname(os.path.dirname(os.path.abspath(__file__)))
sys.path.insert(0, HERE)
sys.dont_write_bytecode = True

NOT_BUILT = "no generated-input check has been built for this property yet (DESIGN.md §4 gives its design; §7 the build order)"
NA_REASONS = {}


def main():
    props = [json.loads(l) for l in open(os.path.join(HERE, "properties.jsonl"))]
    registered = set(open(os.path.join(HERE, "tools", "registered.txt")).read().split())
    checks = {}
    for n in sorted(os.listdir(os.path.join(HERE, "checks"))):
        m = re.match(r"(c\d+)_\w+\.py$", n)
        if not m or m.group(1).upper() not in registered:
            continue
        mod = importlib.import_module("checks." + n[:-3])
        if not hasattr(mod, "PID") or not hasattr(mod, "META") or mod.PID not in registered:
            continue
        checks[mod.PID] = mod
    entries = []
    na = []
    for p in props:
        pid = p["id"]
        mod = checks.get(pid)
        if mod is None:
            na.append({"property_id": pid, "reason": NA_REASONS.get(pid, NOT_BUILT)})
            continue
        meta = mod.META
        e = {
            "property_id": pid,
            "quick_cmd": "./run.py %s --tier quick" % pid,
            "thorough_cmd": "./run.py %s --tier thorough" % pid,
            "evidence_file": "evidence/%s.json" % pid,
            "replay_cmd_template": "./run.py %s --replay {path}" % pid,
            "engine": meta.get("engine", "vlib"),
            "level_claimed": {"category": getattr(mod, "LEVEL", "exploration"),
                              "text": meta["level_text"],
                              "design_ref": meta.get("design_ref", "DESIGN.md §4 " + pid)},
            "level_note": meta["level_note"],
            "technique": meta.get("technique", "property-based testing (Hypothesis) with differential oracle"),
        }
        entries.append(e)
    hooks_commits = []
    man = {
        "version": 1,
        "setup_cmd": "/venv/bin/python -c 'import hypothesis, numpy' || /venv/bin/pip install --no-index --find-links /opt/veriftools/wheels hypothesis numpy",
        "hooks": {
            "guard": "CYTHON_VERIF",
            "enable": "no source hooks: every check builds a pure-source view of /repo's working tree (vlib/tree.py) and observes from outside",
            "baseline_off_cmd": "cd /repo && /venv/bin/python -m pytest -ra -q -p no:cacheprovider --timeout=900 --continue-on-collection-errors",
            "source_commits": hooks_commits,
            "add_only": True,
        },
        "engines": [
            {"name": "vlib", "path": "vlib/", "serves_properties": sorted(checks),
             "kind_free_text": "Hypothesis-driven generators + source-view Cython build + isolated runner subprocesses + differential/metamorphic oracles (DESIGN.md §3 E1-E8)"},
        ],
        "checks": entries,
        "not_applicable": na,
        "notes": "All checks: ./run.py <ID> --tier quick|thorough, honour VERIF_SEED/VERIF_TIER, rebuild a source-only view from /repo's working tree on every run. Known findings: known_findings.json.",
    }
    out = os.path.join(HERE, "MANIFEST.json")
    with open(out, "w") as f:
        json.dump(man, f, indent=1)
        f.write("\n")
    try:
        import jsonschema
        jsonschema.validate(man, json.load(open("/root/.vp/MANIFEST.schema.json")))
        print("MANIFEST valid; %d checks, %d not_applicable" % (len(entries), len(na)))
    except ImportError:
        print("MANIFEST written (jsonschema unavailable); %d checks" % len(entries))


if __name__ == "__main__":
    main()
