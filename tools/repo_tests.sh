#!/bin/sh
# Run the repository's pinned baseline suite (guard off); prints the summary line.
cd /repo && /venv/bin/python -m pytest -q -p no:cacheprovider --timeout=900 --continue-on-collection-errors 2>&1 | tail -4
