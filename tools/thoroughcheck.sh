#!/bin/sh
# usage: tools/thoroughcheck.sh SEED PID...   (runs thorough tiers with outputs redirected to /tmp/th; prints verdict lines)
seed=$1; shift
for p in "$@"; do
  s=$(date +%s)
  VERIF_OUTDIR=/tmp/th/$seed timeout ${TH_TIMEOUT:-5400} ./run.py $p --tier thorough --seed $seed > /tmp/th_$p.$seed.log 2>&1
  rc=$?
  echo "== $p seed=$seed exit=$rc $(grep -c '^VIOLATION' /tmp/th_$p.$seed.log) violations; $(grep -c '^KNOWN' /tmp/th_$p.$seed.log) known; $(( $(date +%s) - s ))s; $(tail -1 /tmp/th_$p.$seed.log | cut -c1-160)"
done
